"""C09: the control skeleton of Heightmap::recurse (render/discrete/heightmap.cpp) re-read from the source into
Gen/HeightmapRecurse_gen.v, in the vocabulary of Render/Heightmap.v: the order of the tests (everything already at the top
of the view / small enough for pixels / interval classification), the fill condition `isFilled() && isSafe()`, the
recursion condition `!isEmpty()`, and the order of the two recursive calls (the higher half first).  Statements are
recognised by their parsed shape; anything else raises."""
import os
import re

import gen_interval as g
from gen_kernels import strip_comments, lex


class HP(g.IP):
    TYPES = g.IP.TYPES + ("Interval",)


R = ("id", "r")


def m(obj, name, args=None):
    return ("meth", obj, name, args)


def generate(repo):
    src = strip_comments(open(os.path.join(repo, "libfive/src/render/discrete/heightmap.cpp")).read())
    mm = re.search(r"bool\s+Heightmap::recurse\s*\(", src)
    if not mm:
        raise ValueError("Heightmap::recurse not found")
    body = g.body_at(src, src.index("{", mm.end()))
    body = body.replace("->", ".").replace("ret &=", "ret = ret &&")
    p = HP(lex(body))
    st = p.stmts_until((None,))
    # the default split axes: template <unsigned int A=7> split()  (X | Y | Z)
    vox = strip_comments(open(os.path.join(repo, "libfive/include/libfive/render/discrete/voxels.hpp")).read())
    if not re.search(r"template\s*<\s*unsigned\s+int\s+A\s*=\s*7\s*>\s*std::pair<View,\s*View>\s*split\s*\(\s*\)", vox):
        raise ValueError("Voxels::View::split: default axis mask is no longer 7")
    k = 0

    def expect(shape, what):
        nonlocal k
        if k >= len(st) or st[k] != shape:
            raise ValueError("Heightmap::recurse: expected %s, found %r" % (what, st[k] if k < len(st) else None))
        k += 1

    expect(("if", m(("id", "abort"), "load", []), [("return", ("id", "false"))], None), "the abort test")
    expect(("decl", "auto", "block",
            m(("id", "depth"), "block", [m(m(R, "corner"), "y", []), m(m(R, "corner"), "x", []),
                                         m(m(R, "size"), "y", []), m(m(R, "size"), "x", [])])), "the image block of the view")
    expect(("if", m(("cmp", ">=", ("id", "block"),
                     ("index", m(m(R, "pts"), "z", []), ("bin", "-", m(m(R, "size"), "z", []), ("num", "1")))), "all", []),
            [("return", ("id", "true"))], None), "the all-at-top test")
    expect(("if", ("cmp", "<=", m(R, "voxels", []), ("id", "ArrayEvaluator::N")),
            [("expr", ("call", ("id", "pixels"), [("id", "e"), ("id", "tape"), R])), ("return", ("id", "true"))], None),
           "the pixel-by-pixel case")
    expect(("decl", "auto", "result", m(("id", "e"), "intervalAndPush", [m(R, "lower"), m(R, "upper"), ("id", "tape")])),
           "the interval evaluation of the view")
    expect(("decl", "Interval", "out", m(("id", "result"), "first")), "out = result.first")
    expect(("decl", "bool", "ret", ("id", "true")), "ret = true")
    if k >= len(st) or st[k][0] != "if":
        raise ValueError("Heightmap::recurse: classification if expected")
    cls = st[k]
    k += 1

    def cond(e):
        if e[0] == "and":
            return "(%s && %s)" % (cond(e[1]), cond(e[2]))
        if e[0] == "or":
            return "(%s || %s)" % (cond(e[1]), cond(e[2]))
        if e[0] == "not":
            return "(negb %s)" % cond(e[1])
        if e[0] == "meth" and e[1] == ("id", "out") and e[3] == [] and e[2] in ("isFilled", "isSafe", "isEmpty"):
            return {"isFilled": "(filled v)", "isSafe": "(safe v)", "isEmpty": "(empty v)"}[e[2]]
        raise ValueError("Heightmap::recurse: unknown condition %r" % (e,))

    def rec_call(e):
        if (e[0] == "call" and e[1] == ("id", "recurse") and len(e[2]) == 4 and e[2][0] == ("id", "e")
                and e[2][1] == m(("id", "result"), "second") and e[2][3] == ("id", "abort")
                and e[2][2][0] == "meth" and e[2][2][1] == ("id", "rs") and e[2][2][2] in ("first", "second")):
            return e[2][2][2]
        raise ValueError("Heightmap::recurse: unknown recursive call %r" % (e,))

    def action(stmts):
        if stmts == [("expr", ("call", ("id", "fill"), [("id", "e"), ("id", "tape"), R]))]:
            return "over_xy v (fill_px v) im"
        if stmts == [("expr", ("call", ("id", "pixels"), [("id", "e"), ("id", "tape"), R]))]:
            return "over_xy v (pixels_px inside v) im"
        if (len(stmts) == 2 and stmts[0] == ("decl", "auto", "rs", m(R, "split", []))
                and stmts[1][0] == "assign" and stmts[1][1] == "ret"):
            e = stmts[1][2]
            if e[0] == "and" and e[1][0] == "and" and e[1][1] == ("id", "ret"):
                first, second = rec_call(e[1][2]), rec_call(e[2])
                pick = {"first": "(fst (split true true true v))", "second": "(snd (split true true true v))"}
                return "rec %s (rec %s im)" % (pick[second], pick[first])
        if len(stmts) == 1 and stmts[0][0] == "if":
            return chain(stmts[0])
        raise ValueError("Heightmap::recurse: unknown action %r" % (stmts,))

    def chain(i):
        return "(if %s then %s else %s)" % (cond(i[1]), action(i[2]), action(i[3]) if i[3] is not None else "im")

    term = chain(cls)
    expect(("if", ("cmp", "!=", m(("id", "result"), "second"), ("id", "tape")),
            [("expr", m(m(("id", "e"), "getDeck", []), "claim", [("call", ("id", "std::move"), [m(("id", "result"), "second")])]))],
            None), "the hand-back of the pushed tape")
    expect(("return", ("id", "ret")), "return ret")
    if k != len(st):
        raise ValueError("Heightmap::recurse: trailing statements")
    return "\n".join([
        "(* GENERATED by translate/gen_heightmap.py from libfive/src/render/discrete/heightmap.cpp (Heightmap::recurse) -- do not edit *)",
        "From Coq Require Import List ZArith Arith Bool.",
        "From LF Require Import Render.Heightmap.",
        "",
        "Section RecurseGen.",
        "  Variable inside : nat -> nat -> nat -> bool.",
        "  (* the interval result of a view: Interval::isFilled / isSafe / isEmpty *)",
        "  Variables filled safe empty : view -> bool.",
        "",
        "  Fixpoint recurse_gen (fuel limit : nat) (v : view) (im : image) : image :=",
        "    match fuel with",
        "    | 0 => im",
        "    | S f =>",
        "        let rec := recurse_gen f limit in",
        "        if all_at_top v im then im",
        "        else if voxels v <=? limit then over_xy v (pixels_px inside v) im",
        "        else " + term,
        "    end.",
        "End RecurseGen.",
        ""])


def generators():
    return {"HeightmapRecurse_gen.v": generate}


if __name__ == "__main__":
    import sys
    print(generate(sys.argv[1] if len(sys.argv) > 1 else "/repo"))
