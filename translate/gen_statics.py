"""Inventory of objects with static storage duration (and of `mutable` members) in the code the
C14 property covers: libfive/src/{tree,eval,oracle} and include/libfive/{tree,eval,oracle}.

For every such object the translator records, from the source as it is now, HOW it is shared:
  SConst        declared const / constexpr (initialised once by the language, never written)
  SAtomic       std::atomic<...>
  SOnceFlag     std::once_flag
  SThreadLocal  thread_local
  SLocalInit r o   function-local static with an initialiser (C++11 "magic static"): r = the enclosing
                function returns a reference, o = every other use of the name in that function is
                `return <name>;` (so the object is only ever copied out after its initialisation)
  STable w r    namespace-scope / class-static mutable object: w = every write to it sits inside a
                std::call_once(...) body, r = every function that reads it calls the function holding
                that call_once as its first statement
  SMutableMember a   a `mutable` data member of a class (a = its type is std::atomic)
  SOther        anything else
Conc/Statics.v holds the policy (which kinds are race-free by which protocol theorem) and the
kernel-checked statement that every object of this inventory satisfies it.  Anything the scanner
cannot classify is SOther, which the policy rejects."""
import glob
import os
import re

DIRS = ["libfive/src/tree", "libfive/src/eval", "libfive/src/oracle",
        "libfive/include/libfive/tree", "libfive/include/libfive/eval", "libfive/include/libfive/oracle"]

TOKEN = re.compile(r"[A-Za-z_][A-Za-z_0-9]*|::|->|==|!=|<=|>=|&&|\|\||\+\+|--|\+=|-=|\*=|/=|<<|>>|[0-9][0-9A-Za-z_.]*|\S")
KEYWORDS_NOT_DECL = {"using", "typedef", "class", "struct", "enum", "union", "template", "extern", "friend",
                     "namespace", "return", "public", "private", "protected", "case", "default", "goto",
                     "if", "else", "for", "while", "do", "switch", "break", "continue", "throw", "delete",
                     "static_assert", "operator"}
READ_METHODS = {"size", "empty", "find", "at", "count", "c_str", "cbegin", "cend", "substr"}


def clean(src):
    # comments, string / char literals, preprocessor lines (with continuations)
    src = re.sub(r"/\*.*?\*/", " ", src, flags=re.S)
    src = re.sub(r"//[^\n]*", " ", src)
    src = re.sub(r'"(\\.|[^"\\])*"', '""', src)
    src = re.sub(r"'(\\.|[^'\\])'", "'c'", src)
    out, cont = [], False
    for line in src.split("\n"):
        if cont or line.lstrip().startswith("#"):
            cont = line.rstrip().endswith("\\")
            out.append("")
        else:
            out.append(line)
    return "\n".join(out)


def strip_templates(toks):
    """drop balanced <...> groups that look like template argument lists (after an identifier)"""
    out, i = [], 0
    while i < len(toks):
        t = toks[i]
        if t == "<" and out and re.match(r"[A-Za-z_]", out[-1]):
            d, j = 1, i + 1
            while j < len(toks) and d:
                if toks[j] == "<":
                    d += 1
                elif toks[j] == ">":
                    d -= 1
                elif toks[j] == ">>":
                    d -= 2
                elif toks[j] in (";", "{"):
                    break
                j += 1
            if d <= 0:
                i = j
                continue
        out.append(t)
        i += 1
    return out


class Scope:
    def __init__(self, kind, name, header, start):
        self.kind, self.name, self.header, self.start = kind, name, header, start
        self.end = None


def scan_file(path, rel):
    toks = TOKEN.findall(clean(open(path, encoding="utf-8", errors="replace").read()))
    n = len(toks)
    # ---- scopes -------------------------------------------------------------------------------
    scopes = []          # all scopes, with token ranges
    stack = []
    stmt_start = 0
    paren = 0
    decls = []           # (stmt tokens, start index, end index, scope stack snapshot)
    i = 0
    while i < n:
        t = toks[i]
        if t in "([":
            paren += 1
        elif t in ")]":
            paren -= 1
        elif t == "{":
            head = toks[stmt_start:i]
            hs = strip_templates(head)
            kind, name = "block", ""
            if paren > 0:
                kind = "lambda" if ")" in head[-3:] or "]" in head[-3:] else "init"
            elif hs and hs[0] == "namespace" or (len(hs) > 1 and hs[0] == "inline" and hs[1] == "namespace"):
                kind, name = "namespace", (hs[-1] if len(hs) > 1 else "")
            elif "(" not in hs and any(k in hs for k in ("class", "struct", "union", "enum")):
                kind = "class"
                for k in ("class", "struct", "union", "enum"):
                    if k in hs:
                        rest = [x for x in hs[hs.index(k) + 1:] if re.match(r"[A-Za-z_]", x)]
                        name = rest[0] if rest else ""
                        if name == "class" and len(rest) > 1:
                            name = rest[1]
                        break
            elif "(" in hs and "=" not in hs[:hs.index("(")]:
                kind = "function" if not any(s.kind in ("function", "lambda") for s in stack) else "block"
                k = hs.index("(")
                name = hs[k - 1] if k else ""
                if hs and hs[0] in ("if", "for", "while", "switch", "catch", "else", "do", "try"):
                    kind, name = "block", ""
            elif "=" in hs or (hs and re.match(r"[A-Za-z_\]]", hs[-1]) and len(hs) >= 2
                               and hs[0] not in ("else", "do", "try")):
                kind = "init"
                # a brace initialiser of a declaration: the declaration statement continues
            sc = Scope(kind, name, head, i)
            sc.paren = paren
            sc.stmt_start = stmt_start
            scopes.append(sc)
            stack.append(sc)
            if kind != "init":
                paren_save = paren
                sc.paren_save = paren_save
                paren = 0
                stmt_start = i + 1
        elif t == "}":
            if stack:
                sc = stack.pop()
                sc.end = i
                if sc.kind != "init":
                    paren = getattr(sc, "paren_save", 0)
                    if paren == 0:
                        stmt_start = i + 1
                    else:
                        stmt_start = sc.stmt_start
        elif t == ";" and paren == 0:
            decls.append((toks[stmt_start:i], stmt_start, i, list(stack)))
            stmt_start = i + 1
        elif t == ":" and paren == 0 and i > 0 and toks[i - 1] in ("public", "private", "protected"):
            stmt_start = i + 1
        i += 1

    def enclosing(idx, kinds):
        best = None
        for sc in scopes:
            if sc.kind in kinds and sc.start < idx and (sc.end is None or idx < sc.end):
                if best is None or sc.start > best.start:
                    best = sc
        return best

    def outer_function(idx):
        best = None
        for sc in scopes:
            if sc.kind == "function" and sc.start < idx and (sc.end is None or idx < sc.end):
                if best is None or sc.start < best.start:
                    best = sc
        return best

    # ---- call_once spans ------------------------------------------------------------------------
    once_spans = []
    for k in range(n - 1):
        if toks[k] == "call_once" and toks[k + 1] == "(":
            d, j = 0, k + 1
            while j < n:
                if toks[j] == "(":
                    d += 1
                elif toks[j] == ")":
                    d -= 1
                    if d == 0:
                        break
                j += 1
            fn = outer_function(k)
            once_spans.append((k, j, fn.name if fn else ""))

    objs = []
    for stmt, s0, s1, stk in decls:
        hs = strip_templates(stmt)
        if not hs:
            continue
        in_fn = any(s.kind in ("function", "lambda") for s in stk)
        in_class = bool(stk) and stk[-1].kind == "class"
        at_ns = all(s.kind == "namespace" for s in stk)
        is_static = "static" in hs
        is_tl = "thread_local" in hs
        is_mut = "mutable" in hs and in_class
        if not (is_static or is_tl or is_mut or at_ns):
            continue
        if hs[0] in KEYWORDS_NOT_DECL or "operator" in hs or "typedef" in hs or "using" in hs or "friend" in hs:
            continue
        # where does the declarator end?
        cut = len(hs)
        for k, t in enumerate(hs):
            if t in ("=", "{", "[", "("):
                cut = k
                break
        if cut < len(hs) and hs[cut] == "(":
            continue                      # a function declaration (or a constructor-call global: not recognised)
        idents = [t for t in hs[:cut] if re.match(r"[A-Za-z_]", t)]
        if len(idents) < 2:
            continue
        name = idents[-1]
        has_init = cut < len(hs)
        typ = stmt
        const = "const" in hs[:cut] or "constexpr" in hs[:cut]
        # `T* const p` vs `const T* p`: only a top-level const counts; approximate: a '*' after the last const
        if const and "*" in hs[:cut]:
            last_const = max(k for k, t in enumerate(hs[:cut]) if t in ("const", "constexpr"))
            last_star = max(k for k, t in enumerate(hs[:cut]) if t == "*")
            if last_star > last_const and "constexpr" not in hs[:cut]:
                const = False
        scope_name = "namespace"
        if in_fn:
            f = outer_function(s0)
            scope_name = "function " + (f.name if f else "?")
        elif in_class:
            scope_name = "class " + stk[-1].name
        if is_mut:
            kind = "SMutableMember %s" % ("true" if any("atomic" in t for t in typ) else "false")
        elif is_tl:
            kind = "SThreadLocal"
        elif any("once_flag" == t for t in typ):
            kind = "SOnceFlag"
        elif any(t.startswith("atomic") for t in typ[:typ.index(name)] if re.match(r"[A-Za-z_]", t)):
            kind = "SAtomic"
        elif const and (has_init or in_class or "::" in hs[:cut]):
            kind = "SConst"
        elif in_fn and is_static:
            f = outer_function(s0)
            byref = False
            only_ret = True
            if f is not None:
                fh = f.header
                k = fh.index("(") if "(" in fh else len(fh)
                byref = "&" in fh[:k]
                for k in range(f.start, f.end if f.end else n):
                    if toks[k] == name and not (s0 <= k <= s1):
                        if not (toks[k - 1] == "return" and toks[k + 1] == ";"):
                            only_ret = False
            else:
                only_ret = False
            kind = "SLocalInit %s %s" % ("true" if byref else "false", "true" if (only_ret and has_init) else "false")
        elif (at_ns or (in_class and is_static)) and not const:
            if in_class and not has_init and not is_static:
                continue
            if at_ns and not is_static and not has_init and "extern" in hs:
                continue
            w_ok, r_ok = True, True
            builders = set(b for (_, _, b) in once_spans)
            for k in range(n):
                if toks[k] != name or (s0 <= k <= s1):
                    continue
                if k > 0 and toks[k - 1] in ("::", ".", "->"):
                    continue
                j = k + 1
                if j < n and toks[j] == "[":
                    d = 0
                    while j < n:
                        if toks[j] == "[":
                            d += 1
                        elif toks[j] == "]":
                            d -= 1
                            if d == 0:
                                break
                        j += 1
                    j += 1
                nxt = toks[j] if j < n else ""
                is_write = nxt in ("=", "+=", "-=", "*=", "/=", "++", "--") or (
                    nxt in (".", "->") and j + 1 < n and toks[j + 1] not in READ_METHODS) or (
                    k > 0 and toks[k - 1] in ("++", "--", "&"))
                if k > 0 and toks[k - 1] in ("=", ":"):
                    # bound to a non-const reference (`auto& s = table[i]`, `for (auto& o : table)`)
                    b = k - 1
                    while b > 0 and toks[b] not in (";", "{", "}"):
                        b -= 1
                    pre = toks[b:k]
                    if "&" in pre and "const" not in pre:
                        is_write = True
                in_once = any(a < k < b for (a, b, _) in once_spans)
                if is_write and not in_once:
                    w_ok = False
                if not in_once:
                    f = outer_function(k)
                    if f is None:
                        r_ok = False
                    else:
                        first = toks[f.start + 1:f.start + 5]
                        if not (len(first) == 4 and first[0] in builders and first[1:] == ["(", ")", ";"]):
                            r_ok = False
            if not once_spans:
                w_ok = r_ok = False
            kind = "STable %s %s" % ("true" if w_ok else "false", "true" if r_ok else "false")
        elif is_static or at_ns:
            kind = "SOther"
        else:
            continue
        objs.append((rel, name, scope_name, kind))
    return objs


def generate(repo):
    objs = []
    files = []
    for d in DIRS:
        for ext in ("*.cpp", "*.hpp", "*.inl", "*.h"):
            files += glob.glob(os.path.join(repo, d, ext))
    for path in sorted(files):
        rel = os.path.relpath(path, os.path.join(repo, "libfive"))
        objs += scan_file(path, rel)
    if not objs:
        raise RuntimeError("no static objects found: scanner or paths broken")
    lines = ["(* GENERATED by translate/gen_statics.py from %s -- do not edit *)" % ", ".join(DIRS),
             "From Coq Require Import List String Bool.",
             "Import ListNotations.",
             "Local Open Scope string_scope.",
             "",
             "Inductive skind :=",
             "| SConst | SAtomic | SOnceFlag | SThreadLocal",
             "| SLocalInit (returns_reference only_returned : bool)",
             "| STable (writes_only_in_call_once readers_build_first : bool)",
             "| SMutableMember (atomic : bool)",
             "| SOther.",
             "Record sobj := { s_file : string; s_name : string; s_scope : string; s_kind : skind }.",
             "",
             "Definition files_scanned : nat := %d." % len(files),
             "Definition statics_gen : list sobj := ["]
    body = []
    for (f, nm, sc, k) in objs:
        body.append('  {| s_file := "%s"; s_name := "%s"; s_scope := "%s"; s_kind := %s |}' % (f, nm, sc, k))
    lines.append(";\n".join(body))
    lines.append("].")
    return "\n".join(lines) + "\n"


def generators():
    return {"Statics_gen.v": generate}


if __name__ == "__main__":
    import sys
    print(generate(sys.argv[1] if len(sys.argv) > 1 else "/repo"))
