"""C12: what every operation of the class Interval (include/libfive/eval/interval.hpp) does to the rounding
mode, read from the source: for every control-flow path through every operation, the sequence of
  EvSave      `const int m = std::fegetround();`
  EvSaveStale `static const int m = std::fegetround();`  (initialised at the FIRST call: some earlier caller's mode)
  EvRestore   `std::fesetround(m);`          (of the variable saved on this path)
  EvPrim n    a call of Boost's interval primitive n (boost::numeric::n, hull, the arithmetic operators
              on Boost intervals: "add" "sub" "mul" "div" "neg" "scale")
in execution order (operands before the call, both arms of ?: and if, every case of a switch with its
fall-through, a path ends at its return).  Conc/FpEnvOps.v gives the events their meaning (Boost's
primitives run under the save_state rounding policy and restore the mode themselves, except the ones
listed as leaky there) and proves from this table that every path of every operation returns with the
mode it was entered with.  Reuses the statement parser of gen_interval.py; anything it does not know raises."""
import os
import re

import gen_interval as g
from gen_kernels import strip_comments

PURE = {"std::isnan", "std::isinf", "std::isfinite", "std::floor", "std::pow", "GLOBAL_atan2", "fmin", "fmax",
        "float", "int", "static_cast<int>", "I", "Interval::I", "Interval", "I::empty"}
BINNAME = {"+": "add", "-": "sub", "*": "mul", "/": "div"}


class Paths:
    def __init__(self, opname):
        self.op = opname
        self.ivars = set()        # local variables holding Boost intervals
        self.saved = set()        # variables holding a saved rounding mode

    # ---- is this expression a Boost interval? ---------------------------------------------------
    def is_iv(self, e):
        k = e[0]
        if k == "meth":
            return e[2] == "i" and e[3] is None
        if k == "id":
            return e[1] in self.ivars
        if k == "call":
            n = e[1][1] if e[1][0] == "id" else ""
            return n.startswith("boost::numeric::") or n in ("hull", "I", "Interval::I", "I::empty")
        if k == "tern":
            return self.is_iv(e[2]) or self.is_iv(e[3])
        if k == "bin":
            return self.is_iv(e[2]) or self.is_iv(e[3])
        if k == "neg":
            return self.is_iv(e[1])
        return False

    # ---- events of an expression: list of alternative event lists -------------------------------
    def ex(self, e):
        k = e[0]
        if k in ("id", "num"):
            return [[]]
        if k == "meth":
            out = self.ex(e[1])
            for a in (e[3] or []):
                out = seq(out, self.ex(a))
            return out
        if k == "call":
            if e[1][0] != "id":
                raise ValueError("%s: call of a computed callee" % self.op)
            n = e[1][1]
            out = [[]]
            for a in e[2]:
                out = seq(out, self.ex(a))
            if n.startswith("boost::numeric::"):
                return seq(out, [[("prim", n.split("::")[-1])]])
            if n == "hull":
                return seq(out, [[("prim", "hull")]])
            if n == "std::fegetround":
                return seq(out, [[("save",)]])
            if n == "std::fesetround":
                if len(e[2]) != 1 or e[2][0][0] != "id" or e[2][0][1] not in self.saved:
                    raise ValueError("%s: fesetround of something that is not a mode saved on this path" % self.op)
                return seq(out, [[("restore",)]])
            if n in PURE:
                return out
            raise ValueError("%s: unknown call %s" % (self.op, n))
        if k == "tern":
            c = self.ex(e[1])
            return seq(c, self.ex(e[2])) + seq(c, self.ex(e[3]))
        if k in ("and", "or"):
            # short-circuit: the right operand may or may not be evaluated
            l = self.ex(e[1])
            r = self.ex(e[2])
            if r == [[]]:
                return l
            return l + seq(l, r)
        if k == "not":
            return self.ex(e[1])
        if k == "neg":
            out = self.ex(e[1])
            return seq(out, [[("prim", "neg")]]) if self.is_iv(e[1]) else out
        if k == "cmp":
            return seq(self.ex(e[2]), self.ex(e[3]))
        if k == "bin":
            out = seq(self.ex(e[2]), self.ex(e[3]))
            li, ri = self.is_iv(e[2]), self.is_iv(e[3])
            if li and ri:
                return seq(out, [[("prim", BINNAME[e[1]])]])
            if li or ri:
                if e[1] == "/" and ri:
                    return seq(out, [[("prim", "div")]])          # 1.0f / a.i
                if e[1] == "*":
                    return seq(out, [[("prim", "scale")]])
                raise ValueError("%s: mixed interval / scalar operator %s" % (self.op, e[1]))
            return out
        if k in ("bitand", "bitor", "xor"):
            return seq(self.ex(e[1]), self.ex(e[2]))
        if k == "cast":
            return self.ex(e[2])
        raise ValueError("%s: unknown expression node %s" % (self.op, k))

    # ---- statements: (open paths, finished paths) ------------------------------------------------
    def run(self, stmts, open_):
        done = []
        for st in stmts:
            if not open_:
                break
            k = st[0]
            if k == "decl":
                ev = self.ex(st[3])
                if st[3][0] == "call" and st[3][1] == ("id", "std::fegetround"):
                    self.saved.add(st[2])
                    if st[2] in getattr(self, "stale", ()):
                        ev = [[("savestale",) if x == ("save",) else x for x in p_] for p_ in ev]
                if st[1] == "I" or self.is_iv(st[3]):
                    self.ivars.add(st[2])
                open_ = seq(open_, ev)
            elif k == "assign":
                if self.is_iv(st[2]):
                    self.ivars.add(st[1])
                open_ = seq(open_, self.ex(st[2]))
            elif k == "expr":
                open_ = seq(open_, self.ex(st[1]))
            elif k == "assert":
                pass
            elif k == "return":
                done += seq(open_, self.ex(st[1]))
                open_ = []
            elif k == "block":
                open_, d = self.run(st[1], open_)
                done += d
            elif k == "if":
                c = seq(open_, self.ex(st[1]))
                o1, d1 = self.run(st[2], c)
                o2, d2 = self.run(st[3], c) if st[3] is not None else (c, [])
                open_ = o1 + o2
                done += d1 + d2
            elif k == "switch":
                c = seq(open_, self.ex(st[1]))
                labels = [i for i, it in enumerate(st[2]) if it[0] in ("case", "default")]
                new_open = []
                for li in labels:
                    # execution from this label to the first break (fall-through included)
                    body = []
                    for it in st[2][li:]:
                        if it[0] in ("case", "default"):
                            continue
                        if it[0] == "break":
                            break
                        body.append(it)
                    body = [strip_break(b) for b in body]
                    o, d = self.run(body, c)
                    new_open += o
                    done += d
                open_ = new_open
            elif k == "break":
                raise ValueError("%s: break outside a switch arm's top level" % self.op)
            else:
                raise ValueError("%s: unknown statement %s" % (self.op, k))
        return dedup(open_), dedup(done)


def strip_break(st):
    # `{ ... }` arms end with the break of the switch at top level of the items list, not nested
    if st[0] == "block" and any(s[0] == "break" for s in st[1]):
        raise ValueError("break nested inside a block of a switch arm")
    return st


def seq(a, b):
    return [x + y for x in a for y in b]


def dedup(ps):
    out, seen = [], set()
    for p in ps:
        t = tuple(p)
        if t not in seen:
            seen.add(t)
            out.append(p)
    return out


def coq_ev(e):
    if e[0] == "save":
        return "EvSave"
    if e[0] == "restore":
        return "EvRestore"
    if e[0] == "savestale":
        return "EvSaveStale"
    return 'EvPrim "%s"' % e[1]


def generate(repo):
    raw = open(os.path.join(repo, g.HEADER)).read()
    src = g.preprocess(strip_comments(raw))
    src = re.sub(r"(?<![A-Za-z_0-9>:])::(\w+)", r"GLOBAL_\1", src)
    ops = []
    stale = {}          # operation -> variables declared `static ... = std::fegetround()`: saved ONCE, at the first call
    for m in re.finditer(r"static\s+Interval\s+(\w+)\s*\(([^)]*)\)\s*\{", src):
        body = g.body_at(src, m.end() - 1)
        stale[m.group(1)] = set(re.findall(r"static\b[^;=]*?(\w+)\s*=\s*std\s*::\s*fegetround", body))
        ops.append((m.group(1), g.parse_stmts(body)))
    for m in re.finditer(r"inline\s+Interval\s+operator\s*([-+*/])\s*\(([^)]*)\)\s*\{", src):
        ops.append(("operator" + BINNAME[m.group(1)], g.parse_stmts(g.body_at(src, m.end() - 1))))
    m = g.one(src, r"Interval\s+operator\s*-\s*\(\s*\)\s*const\s*\{", "operator-()")
    ops.append(("operatorneg", g.parse_stmts(g.body_at(src, m.end() - 1))))
    if len(ops) < 24:
        raise ValueError("only %d operations found in the header" % len(ops))
    # `-i` in the member operator-: i is the Boost interval member
    lines = ["(* GENERATED by translate/gen_fpenv.py from libfive/include/libfive/eval/interval.hpp -- do not edit *)",
             "From Coq Require Import List String.",
             "Import ListNotations.",
             "Local Open Scope string_scope.",
             "",
             "Inductive ev := EvSave | EvSaveStale | EvRestore | EvPrim (name : string).",
             "",
             "(* operation, and one event list per control-flow path through it *)",
             "Definition interval_paths_gen : list (string * list (list ev)) := ["]
    rows = []
    npaths = 0
    for name, stmts in ops:
        P = Paths(name)
        P.stale = stale.get(name, set())
        P.ivars.add("i")
        open_, done = P.run(stmts, [[]])
        if open_:
            raise ValueError("%s: a path falls off the end of the function" % name)
        npaths += len(done)
        rows.append('  ("%s", [%s])' % (name, "; ".join("[" + "; ".join(coq_ev(e) for e in p) + "]" for p in done)))
    lines.append(";\n".join(rows))
    lines.append("].")
    lines.append("Definition interval_paths_count : nat := %d." % npaths)
    # ---- scope: no other code touches the rounding mode or calls Boost's interval primitives directly ---------
    import glob
    sites, nfiles = [], 0
    pat = re.compile(r"boost\s*::\s*numeric\s*::\s*(\w+)\s*\(|\b(fesetround|fegetround|fesetenv|feholdexcept|feupdateenv|"
                     r"_MM_SET_ROUNDING_MODE|_mm_setcsr|_controlfp|_control87|fesetexceptflag|feenableexcept)\b")
    for root in ("libfive/src", "libfive/include", "libfive/stdlib"):
        for path in sorted(glob.glob(os.path.join(repo, root, "**", "*"), recursive=True)):
            if not os.path.isfile(path) or not path.endswith((".cpp", ".hpp", ".h", ".inl", ".c")):
                continue
            rel = os.path.relpath(path, repo)
            if rel == g.HEADER:
                continue
            nfiles += 1
            text = strip_comments(open(path, encoding="utf-8", errors="replace").read())
            for mm in pat.finditer(text):
                what = mm.group(1) and ("boost::numeric::" + mm.group(1)) or mm.group(2)
                sites.append((rel, what))
    if nfiles < 100:
        raise ValueError("only %d source files scanned for rounding-mode sites" % nfiles)
    lines.append("")
    lines.append("(* every place outside interval.hpp that names a Boost interval primitive or a rounding-mode / FP-environment setter *)")
    lines.append("Definition fpenv_foreign_sites : list (string * string) := [%s]." %
                 "; ".join('("%s", "%s")' % s_ for s_ in sites))
    lines.append("Definition fpenv_files_scanned : nat := %d." % nfiles)
    return "\n".join(lines) + "\n"


def generators():
    return {"IntervalEnv_gen.v": generate}


if __name__ == "__main__":
    import sys
    print(generate(sys.argv[1] if len(sys.argv) > 1 else "/repo"))
