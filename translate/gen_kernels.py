"""eval_deriv_array.cpp / eval_interval.cpp / eval_array.cpp -> coq/theories/Gen/*Kernels_gen.v

The per-opcode kernels of the three array evaluators are `switch (op)` statements whose cases are short
expression statements over a handful of macros (od / ad / bd / av / bv / ov, out / a / b).  This translator parses
those cases (a small recursive-descent parser for the C++ expression / statement subset that occurs there) and
re-emits each case as a Coq term over the model's own vocabulary, so that

  * DerivKernels_gen.v    : [dkern_gen]  must be provably equal to the hand-written [Eval/Deriv.dkern]
                            (Eval/KernelsAgree.v), i.e. every derivative formula of the C++ is the one the
                            C06 theorems are about;
  * IntervalDispatch_gen.v: [ieval_gen]  must equal [ieval_un] / [ieval_bin] of Interval/IntervalModel.v
                            (which Interval:: function each opcode is sent to, operand order included);
  * ArrayKernels_gen.v    : [vkern_gen]  over the reals must equal the semantic instance [RD] used by C01 / C06
                            (which kernel each opcode runs in ArrayEvaluator).

A case the parser does not understand raises, the generated file then does not compile, and every obligation that
depends on it breaks (translate/gen_all.py)."""
import os
import re

# --------------------------------------------------------------------------- lexer
TOK = re.compile(r"""
    (?P<num>\d+\.\d*(?:[eE][-+]?\d+)?f?|\d+(?:[eE][-+]?\d+)?f?|\.\d+f?)
  | (?P<id>[A-Za-z_][A-Za-z_0-9]*(?:::[A-Za-z_][A-Za-z_0-9]*)*)
  | (?P<op>\|\||&&|==|!=|<=|>=|\+\+|--|->|[-+*/<>=!?:;,.(){}\[\]&|^])
  | (?P<ws>\s+)
""", re.X)


def strip_comments(s):
    s = re.sub(r"/\*.*?\*/", "", s, flags=re.S)
    return re.sub(r"//[^\n]*", "", s)


def lex(s):
    out, i = [], 0
    while i < len(s):
        m = TOK.match(s, i)
        if not m:
            raise ValueError("cannot tokenise at: " + s[i:i + 40])
        i = m.end()
        if m.lastgroup != "ws":
            out.append((m.lastgroup, m.group()))
    return out


def braces(s, start):
    depth, j = 0, start
    while True:
        depth += {"{": 1, "}": -1}.get(s[j], 0)
        j += 1
        if depth == 0:
            return s[start:j]


# --------------------------------------------------------------------------- parser (C++ subset -> AST tuples)
class P:
    def __init__(self, toks):
        self.t, self.i = toks, 0

    def peek(self, k=0):
        return self.t[self.i + k][1] if self.i + k < len(self.t) else None

    def kind(self):
        return self.t[self.i][0] if self.i < len(self.t) else None

    def eat(self, v=None):
        if self.i >= len(self.t) or (v is not None and self.t[self.i][1] != v):
            raise ValueError(f"expected {v!r}, found {self.peek()!r} (token {self.i})")
        self.i += 1
        return self.t[self.i - 1][1]

    # ---- statements
    def stmts_until(self, stop):
        out = []
        while self.peek() not in stop:
            out.append(self.stmt())
        return out

    def block_or_stmt(self):
        if self.peek() == "{":
            self.eat("{")
            b = self.stmts_until(("}",))
            self.eat("}")
            return b
        return [self.stmt()]

    def stmt(self):
        v = self.peek()
        if v == "for":
            self.eat("for"); self.eat("(")
            depth, hdr = 1, []
            while depth:
                x = self.eat()
                depth += {"(": 1, ")": -1}.get(x, 0)
                hdr.append(x)
            return ("for", " ".join(hdr[:-1]), self.block_or_stmt())
        if v == "if":
            self.eat("if"); self.eat("(")
            c = self.expr()
            self.eat(")")
            th = self.block_or_stmt()
            el = []
            if self.peek() == "else":
                self.eat("else")
                el = self.block_or_stmt()
            return ("if", c, th, el)
        if v in ("break", "return"):
            self.eat()
            if self.peek() != ";":
                self.expr()
            self.eat(";")
            return ("break",)
        if v == "assert":
            self.eat(); self.eat("(")
            self.expr()
            self.eat(")"); self.eat(";")
            return ("assert",)
        if v == "{":
            return ("block", self.block_or_stmt())
        # declaration:  [const] float NAME = EXPR ;
        if v in ("const", "float", "auto", "bool"):
            while self.peek() in ("const", "float", "auto", "bool"):
                self.eat()
            name = self.eat()
            self.eat("=")
            e = self.expr()
            self.eat(";")
            return ("let", name, e)
        lhs = self.expr()
        if self.peek() == "=":
            self.eat("=")
            rhs = self.expr()
            self.eat(";")
            return ("assign", lhs, rhs)
        self.eat(";")
        return ("expr", lhs)

    # ---- expressions (C++ precedence)
    def expr(self):
        c = self.lor()
        if self.peek() == "?":
            self.eat("?")
            a = self.expr()
            self.eat(":")
            b = self.expr()
            return ("tern", c, a, b)
        return c

    def lor(self):
        e = self.land()
        while self.peek() == "||":
            self.eat(); e = ("or", e, self.land())
        return e

    def land(self):
        e = self.bor()
        while self.peek() == "&&":
            self.eat(); e = ("and", e, self.bor())
        return e

    def bor(self):
        e = self.bxor()
        while self.peek() == "|":
            self.eat(); e = ("bitor", e, self.bxor())
        return e

    def bxor(self):
        e = self.band()
        while self.peek() == "^":
            self.eat(); e = ("xor", e, self.band())
        return e

    def band(self):
        e = self.cmp()
        while self.peek() == "&":
            self.eat(); e = ("bitand", e, self.cmp())
        return e

    def cmp(self):
        e = self.add()
        while self.peek() in ("<", ">", "==", "!=", "<=", ">="):
            o = self.eat(); e = ("cmp", o, e, self.add())
        return e

    def add(self):
        e = self.mul()
        while self.peek() in ("+", "-"):
            o = self.eat(); e = ("bin", o, e, self.mul())
        return e

    def mul(self):
        e = self.unary()
        while self.peek() in ("*", "/"):
            o = self.eat(); e = ("bin", o, e, self.unary())
        return e

    def unary(self):
        if self.peek() == "-":
            self.eat(); return ("neg", self.unary())
        if self.peek() == "!":
            self.eat(); return ("not", self.unary())
        return self.postfix()

    def args(self):
        self.eat("(")
        a = []
        if self.peek() != ")":
            a.append(self.expr())
            while self.peek() == ",":
                self.eat(); a.append(self.expr())
        self.eat(")")
        return a

    def postfix(self):
        k, v = self.kind(), self.peek()
        if v == "(":
            self.eat("(")
            e = self.expr()
            self.eat(")")
        elif k == "num":
            self.eat(); e = ("num", v.rstrip("f"))
        elif k == "id":
            self.eat()
            # template arguments of Eigen::Array<float, 1, Eigen::Dynamic>::Zero
            if self.peek() == "<" and v.startswith("Eigen::Array"):
                depth = 0
                while True:
                    x = self.eat()
                    depth += {"<": 1, ">": -1}.get(x, 0)
                    if depth == 0:
                        break
                v = v + "<>"
                if self.kind() == "id" and self.peek().startswith("::") is False and self.peek() == "::":
                    pass
            e = ("id", v)
        else:
            raise ValueError(f"unexpected token {v!r}")
        while True:
            if self.peek() == "(":
                e = ("call", e, self.args())
            elif self.peek() in (".", "->"):
                self.eat()
                if self.peek() == "template":
                    self.eat()
                name = self.eat()
                a = self.args() if self.peek() == "(" else None
                e = ("meth", e, name, a)
            elif self.peek() == "[":
                self.eat("["); ix = self.expr(); self.eat("]")
                e = ("index", e, ix)
            else:
                return e


def switch_cases(src, func_re):
    """[(labels, statements)] of the `switch (op)` in the function whose header matches func_re"""
    src = strip_comments(src)
    m = re.search(func_re, src)
    if not m:
        raise ValueError("function not found: " + func_re)
    body = braces(src, src.index("{", m.end()))
    # the Eigen::Array<...>::Zero(...) spelling has `::` after `>`: glue it so that the lexer sees one identifier
    body = re.sub(r"Eigen::Array<[^>]*>::Zero", "EigenArrayZero", body)
    # explicit template arguments of a method call (v.block<1, Eigen::Dynamic>(...)) carry no meaning here
    body = re.sub(r"\.(?:template\s+)?(\w+)<[^<>()]*>\s*\(", r".\1(", body)
    sw = re.search(r"switch\s*\(\s*op\s*\)", body)
    if not sw:
        raise ValueError("no switch (op)")
    text = braces(body, body.index("{", sw.end()))[1:-1]
    toks = lex(text)
    p = P(toks)
    cases = []
    while p.i < len(toks):
        labels = []
        while p.peek() == "case":
            p.eat("case")
            labels.append(p.eat().split("::")[-1])
            p.eat(":")
        if not labels:
            raise ValueError(f"case label expected, found {p.peek()!r}")
        stmts = p.stmts_until(("case", None))
        cases.append((labels, stmts))
    return cases


# --------------------------------------------------------------------------- derivative kernels -> Coq (abstract ops)
class DerivGen:
    """types: 'D' derivative triple, 'S' scalar, 'B' bool, 'C' component of a triple (inside a row / column loop)"""
    UN = {"cos": "OP_COS", "sin": "OP_SIN", "exp": "OP_EXP", "sqrt": "OP_SQRT", "log": "OP_LOG", "tan": "OP_TAN",
          "abs": "OP_ABS", "atan": "OP_ATAN", "asin": "OP_ASIN", "acos": "OP_ACOS"}

    def __init__(self):
        self.env = {}

    def num(self, s):
        v = float(s)
        if v == 0:
            return "(o_zero O)"
        if v == 1:
            return "(o_one O)"
        if v == 2:
            return "(two O)"
        raise ValueError("numeric literal " + s)

    def is_two(self, e):
        return e[0] == "num" and float(e[1]) == 2

    def base(self, e):
        """macro operand (possibly indexed): returns (name, comp?)"""
        if e[0] == "id" and e[1] in ("ad", "bd", "av", "bv", "ov", "od"):
            return e[1], False
        if e[0] == "meth" and e[2] in ("row", "col") and e[1][0] == "id" and e[1][1] in ("ad", "bd", "od"):
            return e[1][1], True
        if e[0] == "call" and e[1][0] == "id" and e[1][1] in ("av", "bv", "ov") and len(e[2]) == 1:
            return e[1][1], False          # av(i)
        return None, False

    def ex(self, e):
        """-> (coq term, type)"""
        nm, comp = self.base(e)
        if nm:
            if nm in ("ad", "bd"):
                return ({"ad": "ca", "bd": "cb"}[nm], "C") if comp else (nm, "D")
            return nm, "S"
        k = e[0]
        if k == "id":
            if e[1] in self.env:
                return self.env[e[1]]
            if e[1] == "clear_vars":
                return "clear_vars", "B"
            if e[1] == "EigenArrayZero":
                return "(o_zero O)", "S"
            raise ValueError("identifier " + e[1])
        if k == "num":
            return self.num(e[1]), "S"
        if k == "neg":
            t, ty = self.ex(e[1])
            if ty == "D":
                return f"(d3 (o_neg O) {t})", "D"
            return f"(o_neg O {t})", ty
        if k == "bin":
            o, l, r = e[1], e[2], e[3]
            # x.pow(2) handled in meth; scalar * 2 etc. below
            lt, lty = self.ex(l)
            rt, rty = self.ex(r)
            if lty == "D" and rty == "D":
                f = {"+": "o_add", "-": "o_sub"}.get(o)
                if not f:
                    raise ValueError("D " + o + " D")
                return f"(d3_2 ({f} O) {lt} {rt})", "D"
            if lty == "D" and rty in ("S",):
                if o == "*":
                    return f"(dscale O {lt} {rt})", "D"
                if o == "/":
                    return f"(ddivs O {lt} {rt})", "D"
                raise ValueError("D " + o + " S")
            if lty == "D" or rty == "D":
                raise ValueError("S " + o + " D")
            f = {"+": "o_add", "-": "o_sub", "*": "o_mul", "/": "o_div"}[o]
            ty = "C" if "C" in (lty, rty) else "S"
            return f"({f} O {lt} {rt})", ty
        if k == "meth":
            recv, name, a = e[1], e[2], e[3]
            if name == "rowwise":
                return self.ex(recv)
            if name == "pow" and a is not None and len(a) == 1:
                t, ty = self.ex(recv)
                if self.is_two(a[0]):
                    return f"(sq O {t})", ty
                u, _ = self.ex(a[0])
                return f"(o_bin O OP_POW {t} {u})", ty
            if name == "isNaN":
                t, _ = self.ex(recv)
                return f"(o_isnan O {t})", "B"
            if name == "select" and len(a) == 2:
                c, cty = self.ex(recv)
                if cty != "B":
                    raise ValueError("select on non-boolean")
                x, xty = self.ex(a[0])
                y, yty = self.ex(a[1])
                ty = "D" if "D" in (xty, yty) else ("C" if "C" in (xty, yty) else "S")
                return f"(if {c} then {x} else {y})", ty
            if name in ("row", "col"):
                return self.ex(recv)
            raise ValueError("method ." + name)
        if k == "call":
            f, a = e[1], e[2]
            if f[0] == "id":
                fn = f[1]
                if fn == "EigenArrayZero":
                    return "(o_zero O)", "S"
                if fn in ("pow", "powf") and len(a) == 2:
                    t, ty = self.ex(a[0])
                    if self.is_two(a[1]):
                        return f"(sq O {t})", ty
                    u, _ = self.ex(a[1])
                    return f"(o_bin O OP_POW {t} {u})", ty
                if fn in self.UN and len(a) == 1:
                    t, ty = self.ex(a[0])
                    return f"(o_un O {self.UN[fn]} {t})", ty
                if fn == "int" and len(a) == 1:
                    t, _ = self.ex(a[0])
                    return t, "I"
            raise ValueError("call " + str(f))
        if k == "cmp":
            o, l, r = e[1], e[2], e[3]
            lt, _ = self.ex(l)
            rt, _ = self.ex(r)
            if o == "<":
                return f"(o_ltb O {lt} {rt})", "B"
            if o == ">":
                return f"(o_ltb O {rt} {lt})", "B"
            if o == "==":
                return f"(o_eqb O {lt} {rt})", "B"
            raise ValueError("comparison " + o)
        if k in ("or", "and"):
            lt, _ = self.ex(e[1])
            rt, _ = self.ex(e[2])
            return f"({lt} {'||' if k == 'or' else '&&'} {rt})", "B"
        if k == "bitand":
            # int(x) & 1 : "x is odd" (x is an integral exponent)
            lt, lty = self.ex(e[1])
            if lty == "I" and e[2][0] == "num" and float(e[2][1]) == 1:
                return f"(o_eqb O (o_bin O OP_MOD {lt} (two O)) (o_one O))", "B"
            raise ValueError("bit-and")
        if k == "tern":
            c, _ = self.ex(e[1])
            x, xty = self.ex(e[2])
            y, yty = self.ex(e[3])
            return f"(if {c} then {x} else {y})", ("C" if "C" in (xty, yty) else xty)
        raise ValueError("expression kind " + k)

    def uses_comp(self, term):
        return bool(re.search(r"\bc[ab]\b", term))

    def run(self, stmts):
        """the value assigned to od by the statements, as a Coq term of type dvec"""
        result = None
        for st in stmts:
            k = st[0]
            if k in ("break", "assert"):
                continue
            if k == "for":
                inner = self.run(st[2])
                if inner is not None:
                    result = inner
                continue
            if k == "block":
                inner = self.run(st[1])
                if inner is not None:
                    result = inner
                continue
            if k == "let":
                self.env[st[1]] = self.ex(st[2])
                continue
            if k == "if":
                c, cty = self.ex(st[1])
                a = self.run(st[2])
                b = self.run(st[3])
                if a is None or b is None:
                    raise ValueError("if without assignment to od in both branches")
                result = f"(if {c} then {a} else {b})"
                continue
            if k == "assign":
                nm, comp = self.base(st[1])
                if nm != "od":
                    raise ValueError("assignment to " + str(st[1]))
                t, ty = self.ex(st[2])
                if ty == "D":
                    result = t
                elif ty in ("C", "S") and comp:
                    result = f"(d3_2 (fun ca cb => {t}) ad bd)"
                elif ty == "S" and not comp:
                    # od = 0.0
                    if t == "(o_zero O)":
                        result = "(dzero O)"
                    else:
                        raise ValueError("scalar assigned to od")
                else:
                    raise ValueError("assignment of type " + ty)
                continue
            if k == "expr":
                e = st[1]
                if e[0] == "meth" and e[2] == "setZero":
                    result = "(dzero O)"
                    continue
                if e[0] == "call" or e[0] == "meth":
                    return "ORACLE"
                raise ValueError("expression statement")
            raise ValueError("statement " + k)
        return result


def gen_deriv(repo):
    src = open(os.path.join(repo, "libfive/src/eval/eval_deriv_array.cpp")).read()
    cases = switch_cases(src, r"void\s+DerivArrayEvaluator::operator\(\)\s*\(")
    lines = ["(* GENERATED by translate/gen_kernels.py from libfive/src/eval/eval_deriv_array.cpp",
             "   (DerivArrayEvaluator::operator(), one Coq match arm per C++ case) -- do not edit *)",
             "From Coq Require Import List Bool.",
             "From LF Require Import Base.Opcode Base.Num Eval.Deriv.", "",
             "Section DerivGen.", "  Context {num : Type} (O : ops num).", "",
             "  Definition dkern_gen (clear_vars : bool) (op : opcode) (av bv ov : num) (ad bd : @dvec num) : @dvec num :=",
             "    match op with"]
    seen = set()
    for labels, stmts in cases:
        g = DerivGen()
        r = g.run(stmts)
        if r is None:
            # INVALID ... LAST_OP: assert(false)
            if not all(s[0] in ("assert", "break") for s in stmts):
                raise ValueError("case " + "/".join(labels) + ": no value for od")
            continue
        if r == "ORACLE":
            continue
        for l in labels:
            if l in seen:
                raise ValueError("duplicate case " + l)
            seen.add(l)
            lines.append(f"    | {l} => {r}")
    if len(seen) < 25:
        raise ValueError(f"only {len(seen)} derivative kernels found")
    lines += ["    | _ => dzero O", "    end.", "End DerivGen.", ""]
    return "\n".join(lines)


# --------------------------------------------------------------------------- interval dispatch
IV_FN = {"min": "imin", "max": "imax", "atan2": "iatan2", "pow": "ipow", "nth_root": "inth_root", "mod": "imod",
         "nanfill": "inanfill", "compare": "icompare", "square": "isquare", "sqrt": "isqrt", "sin": "isin", "cos": "icos",
         "tan": "itan", "asin": "iasin", "acos": "iacos", "atan": "iatan", "exp": "iexp", "log": "ilog", "abs": "iabs",
         "recip": "irecip"}


def iv_apply(fn, args):
    """the model's interval operations are section-closed over (I : iops) and / or (B : bprims), each over the ones it
    uses: let Coq pick the arity"""
    a = " ".join(args)
    return (f"ltac:(first [exact ({fn} I B {a}) | exact ({fn} I {a}) | exact ({fn} B {a}) | exact ({fn} {a})])")


def iv_expr(e):
    if e[0] == "id" and e[1] in ("a", "b"):
        return e[1]
    if e[0] == "bin":
        f = {"+": "iadd", "-": "isub", "*": "imul", "/": "idiv"}[e[1]]
        return iv_apply(f, [iv_expr(e[2]), iv_expr(e[3])])
    if e[0] == "neg":
        return iv_apply("ineg", [iv_expr(e[1])])
    if e[0] == "call" and e[1][0] == "id" and e[1][1].startswith("Interval::"):
        fn = e[1][1].split("::")[1]
        if fn not in IV_FN:
            raise ValueError("Interval::" + fn)
        return iv_apply(IV_FN[fn], [iv_expr(x) for x in e[2]])
    raise ValueError("interval expression " + str(e)[:80])


def gen_interval(repo):
    src = open(os.path.join(repo, "libfive/src/eval/eval_interval.cpp")).read()
    cases = switch_cases(src, r"void\s+IntervalEvaluator::operator\(\)\s*\(")
    arms, seen = [], set()
    for labels, stmts in cases:
        val = None
        for st in stmts:
            if st[0] == "assign":
                if not (st[1][0] == "id" and st[1][1] == "out"):
                    raise ValueError("assignment to " + str(st[1]))
                val = iv_expr(st[2])
            elif st[0] == "expr":
                val = "ORACLE"
            elif st[0] not in ("break", "assert"):
                raise ValueError("statement " + st[0])
        if val in (None, "ORACLE"):
            continue
        for l in labels:
            if l in seen:
                raise ValueError("duplicate case " + l)
            seen.add(l)
            arms.append(f"    | {l} => {val}")
    if len(seen) < 25:
        raise ValueError(f"only {len(seen)} interval cases found")
    return "\n".join([
        "(* GENERATED by translate/gen_kernels.py from libfive/src/eval/eval_interval.cpp",
        "   (IntervalEvaluator::operator(): which Interval:: operation each opcode is sent to) -- do not edit *)",
        "From LF Require Import Base.Opcode Interval.IntervalModel.", "",
        "Section IntervalGen.", "  Context {num : Type} (I : @iops num) (B : @bprims num).", "",
        "  Definition ieval_gen (op : opcode) (a b : @ival num) : @ival num :=", "    match op with"] + arms +
        ["    | _ => a", "    end.", "End IntervalGen.", ""])


# --------------------------------------------------------------------------- value kernels -> Coq (reals)
ARR_UN = {"sqrt": "sqrt", "sin": "sin", "cos": "cos", "tan": "tan", "asin": "asin", "acos": "acos", "atan": "atan",
          "log": "ln", "exp": "exp", "abs": "Rabs"}
# the two kernels that are loops with local control flow are accepted only in exactly this shape (token sequence);
# their meaning over the reals is the model's Rmod / Rnth_root (Eval/DerivSem.v)
FROZEN = {
    "OP_NTH_ROOT": ("Rnth_root a b",
                    "for ( auto i = 0 ; i < a . size ( ) ; ++ i ) { if ( a ( i ) < 0 ) out ( i ) = Interval::nth_root ( "
                    "Interval ( a ( i ) , a ( i ) ) , Interval ( b ( i ) , b ( i ) ) ) . lower ( ) ; "
                    "else out ( i ) = powf ( a ( i ) , 1.0f / b ( i ) ) ; } break ;"),
}


ARR_ENV = {}       # local variables and the current value of out (per case, see arr_seq)


def arr_expr(e):
    k = e[0]
    if k == "id" and e[1] in ("a", "b"):
        return e[1]
    if k == "id" and e[1] in ARR_ENV:
        return ARR_ENV[e[1]]
    if k == "call" and e[1][0] == "id" and e[1][1] in ("a", "b") and len(e[2]) == 1:
        return e[1][1]                                  # a(i)
    if k == "call" and e[1] == ("id", "out") and len(e[2]) == 1 and "out" in ARR_ENV:
        return ARR_ENV["out"]                           # out(i) read back
    if k == "call" and e[1][0] == "id" and e[1][1] in ("fabs", "floor", "ceil") and len(e[2]) == 1:
        return "(" + {"fabs": "Rabs", "floor": "Rfloor", "ceil": "Rceil"}[e[1][1]] + " " + arr_expr(e[2][0]) + ")"
    if k == "num":
        v = float(e[1])
        if v != int(v):
            raise ValueError("literal " + e[1])
        return f"{int(v)}"
    if k == "neg":
        return f"(- {arr_expr(e[1])})"
    if k == "bin":
        return f"({arr_expr(e[2])} {e[1]} {arr_expr(e[3])})"
    if k == "meth":
        recv, name, a = e[1], e[2], e[3]
        if name == "cwiseMin":
            return f"(Rmin {arr_expr(recv)} {arr_expr(a[0])})"
        if name == "cwiseMax":
            return f"(Rmax {arr_expr(recv)} {arr_expr(a[0])})"
        if name == "pow":
            return f"(Rpow {arr_expr(recv)} {arr_expr(a[0])})"
        if name == "select" and recv[0] == "meth" and recv[2] == "isNaN":
            # no real number is NaN
            arr_expr(recv[1])
            return f"(if false then {arr_expr(a[0])} else {arr_expr(a[1])})"
        raise ValueError("method ." + name)
    if k == "call" and e[1][0] == "id":
        fn = e[1][1]
        if fn in ARR_UN and len(e[2]) == 1:
            return f"({ARR_UN[fn]} {arr_expr(e[2][0])})"
        if fn == "atan2f" and len(e[2]) == 2:
            return f"(Ratan2 {arr_expr(e[2][0])} {arr_expr(e[2][1])})"
    raise ValueError("value expression " + str(e)[:80])


def arr_cond(e):
    if e[0] == "cmp" and e[1] in ("<", ">"):
        l, r = arr_expr(e[2]), arr_expr(e[3])
        return f"Rlt_dec {l} {r}" if e[1] == "<" else f"Rlt_dec {r} {l}"
    raise ValueError("condition " + str(e)[:80])


def arr_bool(e):
    """a condition as a Coq bool"""
    if e[0] == "cmp":
        return f"(if {arr_cond(e)} then true else false)"
    if e[0] in ("and", "or", "xor"):
        f = {"and": "andb", "or": "orb", "xor": "xorb"}[e[0]]
        return f"({f} {arr_bool(e[1])} {arr_bool(e[2])})"
    raise ValueError("condition " + str(e)[:80])


def arr_seq(stmts):
    """straight-line code with local floats, re-assignments and one-armed ifs (the OP_MOD loop): symbolic execution in
    SSA form -- every assignment binds a fresh name with `let`, variables assigned under an `if` are merged at the join"""
    binds = []

    def fresh(var, term):
        name = f"{var}{len(binds)}"
        binds.append((name, term))
        ARR_ENV[var] = name

    def target(t):
        if t[0] == "id":
            return t[1]
        if t[0] == "call" and t[1] == ("id", "out"):
            return "out"
        raise ValueError("assignment to " + str(t)[:60])

    def run(sts):
        for st in sts:
            k = st[0]
            if k in ("break", "assert"):
                continue
            if k == "for":
                run(st[2])
            elif k == "block":
                run(st[1])
            elif k == "let":
                fresh(st[1], arr_expr(st[2]))
            elif k == "assign":
                fresh(target(st[1]), arr_expr(st[2]))
            elif k == "if":
                c = arr_bool(st[1])
                cname = f"c{len(binds)}"
                binds.append((cname, c))
                before = dict(ARR_ENV)
                run(st[2])
                th = dict(ARR_ENV)
                ARR_ENV.clear(); ARR_ENV.update(before)
                run(st[3])
                el = dict(ARR_ENV)
                ARR_ENV.clear(); ARR_ENV.update(before)
                for v in sorted(set(th) | set(el)):
                    x, y = th.get(v, before.get(v)), el.get(v, before.get(v))
                    if x is None or y is None:
                        raise ValueError("variable " + v + " assigned on one path only")
                    if x != y:
                        fresh(v, f"(if {cname} then {x} else {y})")
            else:
                raise ValueError("statement " + k)
    ARR_ENV.clear()
    run(stmts)
    out = ARR_ENV.get("out")
    ARR_ENV.clear()
    if out is None:
        raise ValueError("no value for out")
    return "\n      " + "\n      ".join(f"let {n} := {t} in" for n, t in binds) + f"\n      {out}"


def arr_stmts(stmts):
    """value assigned to out by a list of statements (assignment, if / else chains, loops over the slots)"""
    val = None
    for st in stmts:
        k = st[0]
        if k in ("break", "assert"):
            continue
        if k == "for":
            v = arr_stmts(st[2])
            val = v if v is not None else val
        elif k == "block":
            v = arr_stmts(st[1])
            val = v if v is not None else val
        elif k == "assign":
            t = st[1]
            if not ((t[0] == "id" and t[1] == "out") or (t[0] == "call" and t[1] == ("id", "out"))):
                raise ValueError("assignment to " + str(t)[:60])
            val = arr_expr(st[2])
        elif k == "if":
            a, b = arr_stmts(st[2]), arr_stmts(st[3])
            if a is None or b is None:
                raise ValueError("if without a value in both branches")
            val = f"(if {arr_cond(st[1])} then {a} else {b})"
        elif k == "expr":
            return "ORACLE"
        else:
            raise ValueError("statement " + k)
    return val


def gen_array(repo):
    src = open(os.path.join(repo, "libfive/src/eval/eval_array.cpp")).read()
    m = re.search(r"void\s+ArrayEvaluator::operator\(\)\s*\(", strip_comments(src))
    cases = switch_cases(src, r"void\s+ArrayEvaluator::operator\(\)\s*\(")
    # raw token text per case, for the frozen shapes
    body = strip_comments(src)
    body = body[re.search(r"void\s+ArrayEvaluator::operator\(\)\s*\(", body).end():]
    raw = {}
    for mm in re.finditer(r"case\s+Opcode::(\w+)\s*:(.*?)(?=case\s+Opcode::|\Z)", body, flags=re.S):
        raw[mm.group(1)] = " ".join(v for _, v in lex(mm.group(2).split("#undef")[0].rstrip().rstrip("}").rstrip()))
    arms, seen = [], set()
    for labels, stmts in cases:
        if len(labels) == 1 and labels[0] in FROZEN:
            term, shape = FROZEN[labels[0]]
            got = raw.get(labels[0], "")
            if got.replace(" ", "") != shape.replace(" ", ""):
                raise ValueError(f"case {labels[0]}: the loop no longer has the recorded shape: {got[:200]}")
            val = term
        elif labels == ["OP_MOD"]:
            val = arr_seq(stmts)
        else:
            val = arr_stmts(stmts)
        if val in (None, "ORACLE"):
            continue
        for l in labels:
            if l in seen:
                raise ValueError("duplicate case " + l)
            seen.add(l)
            arms.append(f"  | {l} => {val}")
    if len(seen) < 25:
        raise ValueError(f"only {len(seen)} value kernels found")
    return "\n".join([
        "(* GENERATED by translate/gen_kernels.py from libfive/src/eval/eval_array.cpp",
        "   (ArrayEvaluator::operator(): the kernel each opcode runs, read over the reals; the OP_MOD loop is transcribed",
        "   statement by statement; OP_NTH_ROOT is accepted only in its recorded shape and stands for Rnth_root) -- do not edit *)",
        "From Coq Require Import Reals Bool.", "From LF Require Import Base.Opcode Eval.DerivSem.", "Local Open Scope R_scope.", "",
        "(* floor / ceil of libm, over the reals *)",
        "Definition Rfloor (x : R) : R := IZR (Int_part x).",
        "Definition Rceil (x : R) : R := - IZR (Int_part (- x)).", "",
        "Definition vkern_gen (op : opcode) (a b : R) : R :=", "  match op with"] + arms +
        ["  | _ => 0", "  end.", ""])


# --------------------------------------------------------------------------- topology-safety tests of the collapse
AXIS = {"Axis::X": 1, "Axis::Y": 2, "Axis::Z": 4}


def corner_index(e):
    """a corner number: 0, Axis::X, Axis::X|Axis::Y, ..."""
    if e[0] == "num":
        return int(float(e[1]))
    if e[0] == "id" and e[1] in AXIS:
        return AXIS[e[1]]
    if e[0] == "bitor":
        return corner_index(e[1]) | corner_index(e[2])
    raise ValueError("corner index " + str(e)[:60])


def lm_expr(e, state, corner):
    """boolean expression over cs[i]->cornerState(j) == corners[k]"""
    k = e[0]
    if k in ("and", "or"):
        return f"({lm_expr(e[1], state, corner)} {'&&' if k == 'and' else '||'} {lm_expr(e[2], state, corner)})"
    if k == "id":
        return e[1]
    if k == "cmp" and e[1] == "==":
        l, r = e[2], e[3]
        # cs[i]->cornerState(j)
        if not (l[0] == "meth" and l[2] == "cornerState" and l[1][0] == "index" and l[1][1] == ("id", "cs")):
            raise ValueError("left side of == " + str(l)[:80])
        ci, cj = corner_index(l[1][2]), corner_index(l[3][0])
        if not (r[0] == "index" and r[1] == ("id", "corners")):
            raise ValueError("right side of == " + str(r)[:80])
        return f"Bool.eqb ({state} (cs {ci}) {cj}) (k {corner_index(r[2])})"
    raise ValueError("leafsAreManifold expression " + str(e)[:80])


def gen_leafs(repo):
    out = ["(* GENERATED by translate/gen_kernels.py from libfive/src/render/brep/dc/dc_tree2.cpp and dc_tree3.cpp",
           "   (DCTree<N>::leafsAreManifold: the edge / face / centre tests of the topology-safe collapse) -- do not edit *)",
           "From Coq Require Import ZArith Bool.", "From LF Require Import Render.QuadTree Render.OctTree.",
           "Local Open Scope Z_scope.", ""]
    for n, tree, state, name in ((2, "qtree", "corner_state", "leafs_manifold2_gen"), (3, "otree", "ocorner_state", "leafs_manifold3_gen")):
        src = strip_comments(open(os.path.join(repo, f"libfive/src/render/brep/dc/dc_tree{n}.cpp")).read())
        m = re.search(r"bool\s+DCTree<%d>::leafsAreManifold\s*\(" % n, src)
        if not m:
            raise ValueError(f"DCTree<{n}>::leafsAreManifold not found")
        body = braces(src, src.index("{", src.index(")", m.end())))[1:-1]
        p = P(lex(body))
        stmts = p.stmts_until((None,))
        lets, ret = [], None
        for st in stmts:
            if st[0] == "let":
                lets.append((st[1], lm_expr(st[2], state, None)))
            elif st[0] == "break":
                continue
            else:
                raise ValueError("statement " + st[0])
        # `return a && b ...;` is parsed by stmt() as break (return); recover its expression from the text
        mret = re.search(r"return\s+(.*?);", body, flags=re.S)
        if not mret:
            raise ValueError("no return")
        ret = lm_expr(P(lex(mret.group(1))).expr(), state, None)
        out.append(f"Definition {name} (cs : Z -> {tree}) (k : Z -> bool) : bool :=")
        for nm, t in lets:
            out.append(f"  let {nm} := {t} in")
        out.append(f"  {ret}.")
        out.append("")
    return "\n".join(out)


def generators():
    return {"DerivKernels_gen.v": gen_deriv, "IntervalDispatch_gen.v": gen_interval, "ArrayKernels_gen.v": gen_array,
            "LeafsManifold_gen.v": gen_leafs}


if __name__ == "__main__":
    import sys
    repo = sys.argv[1] if len(sys.argv) > 1 else "/repo"
    print(gen_deriv(repo))
    print(gen_interval(repo))
