"""libfive/stdlib/stdlib_impl.cpp  ->  coq/theories/Gen/Stdlib_gen.v  (+ C++ / JSON dispatch tables)

Every C++ function of the csg / shapes / transforms sections whose body is straight-line
(local definitions and one return; no loops, no integer parameters) is re-stated as a Coq
function over the term language of Stdlib/SExpr.v:

    Tree / TreeFloat          ->  sx num
    TreeVec2 / TreeVec3       ->  vec2 num / vec3 num
    a + b, -a, min(a, b) ...  ->  SB OP_ADD a b, SU OP_NEG a, SB OP_MIN a b   (opcode names are read
                                  from LIBFIVE_TREE_OPERATORS in tree/operations.hpp)
    t.remap(X, Y, Z)          ->  SR t X Y Z
    integer literal n         ->  SC (o_ofnat O n)    (implicit Tree(float) conversion)
    vec op vec, vec op float  ->  the translated `operator` overloads at the top of the file

A function on the REQUIRED list that cannot be translated is an error (the generated file then
does not compile and every C18 obligation breaks)."""
import json
import os
import re

REQUIRED = """_union intersection inverse difference offset clearance shell
circle ring rectangle rounded_rectangle rectangle_exact rectangle_centered_exact half_plane triangle
box_mitered box_mitered_centered box_exact_centered box_exact rounded_box sphere half_space
cylinder_z cone_ang_z cone_z torus_z extrude_z
move reflect_x reflect_y reflect_z reflect_xy reflect_yz reflect_xz symmetric_x symmetric_y symmetric_z
scale_x scale_y scale_z scale_xyz rotate_x rotate_y rotate_z""".split()

TYPES = {"Tree": "T", "TreeFloat": "T", "TreeVec2": "V2", "TreeVec3": "V3"}
COQTY = {"T": "sx num", "V2": "vec2 num", "V3": "vec3 num"}
OPNAMES = {"operator+": "add", "operator-": "sub", "operator*": "mul", "operator/": "div"}


class Untranslatable(Exception):
    pass


def read_operators(repo):
    src = open(os.path.join(repo, "libfive/include/libfive/tree/operations.hpp")).read()
    un, bi = {}, {}
    for kind, name, code in re.findall(r"OP_(UNARY|BINARY)\(\s*([\w+\-*/]+)\s*,\s*(\w+)\s*\)", src):
        if name in ("OP", ):
            continue
        (un if kind == "UNARY" else bi)[name] = code
    # pow / nth_root are declared separately (they check their second argument)
    bi.setdefault("pow", "OP_POW")
    bi.setdefault("nth_root", "OP_NTH_ROOT")
    if not un or not bi:
        raise Untranslatable("LIBFIVE_TREE_OPERATORS not found")
    return un, bi


# --------------------------------------------------------------------------- lexer / parser
TOK = re.compile(r"\s*(?:(\d+\.\d*(?:[eE][-+]?\d+)?f?|\d+)|([A-Za-z_]\w*)|(.))")


def lex(s):
    out = []
    pos = 0
    while pos < len(s):
        m = TOK.match(s, pos)
        if not m:
            break
        pos = m.end()
        if m.group(1) is not None:
            out.append(("num", m.group(1)))
        elif m.group(2) is not None:
            out.append(("id", m.group(2)))
        elif m.group(3) is not None and m.group(3).strip():
            out.append(("p", m.group(3)))
    return out


class P:
    def __init__(self, toks):
        self.t = toks
        self.i = 0

    def peek(self, k=0):
        return self.t[self.i + k] if self.i + k < len(self.t) else ("eof", "")

    def eat(self, kind=None, val=None):
        tk = self.peek()
        if (kind and tk[0] != kind) or (val is not None and tk[1] != val):
            raise Untranslatable(f"expected {kind} {val}, got {tk}")
        self.i += 1
        return tk

    def at(self, val):
        return self.peek() == ("p", val)

    # expr AST: ('num', n) ('id', name) ('call', name, args) ('neg', e) ('bin', op, a, b)
    #           ('field', e, f) ('method', e, name, args) ('brace', tyname|None, args)
    def expr(self):
        e = self.mul()
        while self.at("+") or self.at("-"):
            op = self.eat()[1]
            e = ("bin", op, e, self.mul())
        return e

    def mul(self):
        e = self.unary()
        while self.at("*") or self.at("/"):
            op = self.eat()[1]
            e = ("bin", op, e, self.unary())
        return e

    def unary(self):
        if self.at("-"):
            self.eat()
            return ("neg", self.unary())
        return self.postfix()

    def args(self, close):
        a = []
        if not self.at(close):
            a.append(self.expr())
            while self.at(","):
                self.eat()
                a.append(self.expr())
        self.eat("p", close)
        return a

    def postfix(self):
        e = self.primary()
        while self.at("."):
            self.eat()
            name = self.eat("id")[1]
            if self.at("("):
                self.eat()
                e = ("method", e, name, self.args(")"))
            else:
                e = ("field", e, name)
        return e

    def primary(self):
        tk = self.peek()
        if tk[0] == "num":
            self.eat()
            return ("num", tk[1])
        if tk == ("p", "("):
            self.eat()
            e = self.expr()
            self.eat("p", ")")
            return e
        if tk == ("p", "{"):
            self.eat()
            return ("brace", None, self.args("}"))
        if tk[0] == "id":
            self.eat()
            if self.at("("):
                self.eat()
                return ("call", tk[1], self.args(")"))
            if self.at("{"):
                self.eat()
                return ("brace", tk[1], self.args("}"))
            return ("id", tk[1])
        raise Untranslatable(f"unexpected token {tk}")


def strip_comments(s):
    s = re.sub(r"/\*.*?\*/", "", s, flags=re.S)
    return re.sub(r"//[^\n]*", "", s)


def split_functions(src):
    """top-level `RET NAME(PARAMS) { BODY }` definitions"""
    fns = []
    for m in re.finditer(r"^(Tree|TreeVec2|TreeVec3)\s+(operator\s*[-+*/]|\w+)\s*\(([^)]*)\)\s*\{", src, flags=re.M):
        depth, j = 1, m.end()
        while depth and j < len(src):
            depth += {"{": 1, "}": -1}.get(src[j], 0)
            j += 1
        fns.append((m.group(1), m.group(2).replace(" ", ""), m.group(3), src[m.end():j - 1]))
    return fns


def parse_params(ps):
    out = []
    for p in [x.strip() for x in ps.split(",") if x.strip()]:
        m = re.match(r"^(?:const\s+)?(\w+)\s*&?\s*(\w+)$", p)
        if not m or m.group(1) not in TYPES:
            raise Untranslatable(f"parameter '{p}'")
        out.append((m.group(2), TYPES[m.group(1)]))
    return out


def coq_name(cname, ptypes):
    if cname.startswith("operator"):
        return "s_op_" + OPNAMES.get(cname, "x") + "_" + "_".join(ptypes)
    return "s_" + cname.lstrip("_") if cname.startswith("_") else "s_" + cname


class Translator:
    def __init__(self, repo):
        self.un, self.bi = read_operators(repo)
        src = strip_comments(open(os.path.join(repo, "libfive/stdlib/stdlib_impl.cpp")).read())
        src = src.split("Glyph glyph_A")[0]
        self.raw = split_functions(src)
        self.sigs = {}          # (cname, arity or ptypes) -> (coqname, ptypes, ret)
        self.defs = {}          # coqname -> dict(text, deps, cname, params, ret)
        self.errors = {}
        for ret, cname, ps, body in self.raw:
            try:
                params = parse_params(ps)
            except Untranslatable as e:
                self.errors[cname] = str(e)
                continue
            pt = tuple(t for _, t in params)
            self.sigs.setdefault(cname, []).append((coq_name(cname, pt), pt, TYPES[ret]))
        for ret, cname, ps, body in self.raw:
            if cname in self.errors:
                continue
            params = parse_params(ps)
            pt = tuple(t for _, t in params)
            try:
                self.translate(cname, coq_name(cname, pt), params, TYPES[ret], body)
            except Untranslatable as e:
                self.errors[cname] = str(e)

    # ---- expressions -----------------------------------------------------
    def lookup(self, cname, argtypes):
        for cq, pt, ret in self.sigs.get(cname, []):
            if len(pt) == len(argtypes) and all(a == b or a in ("num", "brace") for a, b in zip(argtypes, pt)):
                return cq, pt, ret
        raise Untranslatable(f"no overload {cname}{argtypes}")

    def coerce(self, e, want, env):
        """translate e expecting type `want` (T / V2 / V3)"""
        if e[0] == "brace" and e[1] is None:
            n = {"V2": 2, "V3": 3}.get(want)
            if n is None or len(e[2]) != n:
                raise Untranslatable("brace initialiser for " + want)
            return "(%s %s)" % (want, " ".join(self.coerce(a, "T", env) for a in e[2]))
        txt, ty = self.tr(e, env)
        if ty == "num":
            if want != "T":
                raise Untranslatable("number where vector expected")
            return txt
        if ty != want:
            raise Untranslatable(f"type {ty} where {want} expected")
        return txt

    def ty_hint(self, e, env):
        if e[0] == "brace" and e[1] is None:
            return "brace"
        return self.tr(e, env)[1]

    def tr(self, e, env):
        k = e[0]
        if k == "num":
            if not re.fullmatch(r"\d+", e[1]):
                raise Untranslatable("non-integer literal " + e[1])
            return f"(SC (o_ofnat O {int(e[1])}))", "num"
        if k == "id":
            if e[1] not in env:
                raise Untranslatable("unknown identifier " + e[1])
            return env[e[1]][0], env[e[1]][1]
        if k == "field":
            txt, ty = self.tr(e[1], env)
            if ty == "V2" and e[2] in ("x", "y"):
                return f"(v2{e[2]} {txt})", "T"
            if ty == "V3" and e[2] in ("x", "y", "z"):
                return f"(v3{e[2]} {txt})", "T"
            raise Untranslatable(f"field .{e[2]} of {ty}")
        if k == "brace":
            ty = TYPES.get(e[1])
            if ty not in ("V2", "V3"):
                raise Untranslatable("brace type")
            return self.coerce(("brace", None, e[2]), ty, env), ty
        if k == "neg":
            txt, ty = self.tr(e[1], env)
            if ty == "num":
                raise Untranslatable("negated literal")
            if ty == "T":
                return f"(SU {self.un['operator-']} {txt})", "T"
            cq, pt, ret = self.lookup("operator-", (ty,))
            self.deps.add(cq)
            return f"({cq} {txt})", ret
        if k == "bin":
            opn = "operator" + e[1]
            ta, tb = self.ty_hint(e[2], env), self.ty_hint(e[3], env)
            if ta == "num" and tb == "num":
                raise Untranslatable("arithmetic on two literals (host arithmetic)")
            if ta in ("T", "num") and tb in ("T", "num"):
                return (f"(SB {self.bi[opn]} {self.coerce(e[2], 'T', env)} {self.coerce(e[3], 'T', env)})", "T")
            cq, pt, ret = self.lookup(opn, (ta, tb))
            self.deps.add(cq)
            return f"({cq} {self.coerce(e[2], pt[0], env)} {self.coerce(e[3], pt[1], env)})", ret
        if k == "call":
            name, args = e[1], e[2]
            if name in self.sigs:
                cq, pt, ret = self.lookup(name, tuple(self.ty_hint(a, env) for a in args))
                self.deps.add(cq)
                return "(%s %s)" % (cq, " ".join(self.coerce(a, t, env) for a, t in zip(args, pt))), ret
            if name in self.un and len(args) == 1:
                return f"(SU {self.un[name]} {self.coerce(args[0], 'T', env)})", "T"
            if name in self.bi and len(args) == 2:
                tys = [self.ty_hint(a, env) for a in args]
                if tys == ["num", "num"]:
                    raise Untranslatable("host arithmetic")
                return f"(SB {self.bi[name]} {self.coerce(args[0], 'T', env)} {self.coerce(args[1], 'T', env)})", "T"
            raise Untranslatable("call of " + name)
        if k == "method":
            if e[2] != "remap" or len(e[3]) != 3:
                raise Untranslatable("method " + e[2])
            t = self.coerce(e[1], "T", env)
            return "(SR %s %s)" % (t, " ".join(self.coerce(a, "T", env) for a in e[3])), "T"
        raise Untranslatable("expression " + k)

    # ---- statements ------------------------------------------------------
    def translate(self, cname, cq, params, ret, body):
        if re.search(r"\b(for|while|if|switch|goto)\b", body):
            raise Untranslatable("control flow")
        self.deps = set()
        env = {}
        used = set()
        for n, t in params:
            env[n] = (self.local(n), t)
        lets = []
        stmts = [s.strip() for s in body.split(";")]
        result = None
        for s in stmts:
            if not s:
                continue
            if result is not None:
                raise Untranslatable("statement after return")
            if s == "LIBFIVE_DEFINE_XYZ()":
                for n, c in (("x", "SX"), ("y", "SY"), ("z", "SZ")):
                    env[n] = (c, "T")
                continue
            if s.startswith("(void)"):
                continue
            m = re.match(r"^return\s+(.*)$", s, flags=re.S)
            if m:
                p = P(lex(m.group(1)))
                e = p.expr()
                if p.peek()[0] != "eof":
                    raise Untranslatable("trailing tokens in return")
                result = self.coerce(e, ret, env)
                continue
            m = re.match(r"^(?:const\s+)?(auto|Tree|TreeFloat|TreeVec2|TreeVec3)\s+(\w+)\s*(=|\{)(.*)$", s, flags=re.S)
            if m:
                ty = TYPES.get(m.group(1))
                rhs = m.group(4) if m.group(3) == "=" else "{" + m.group(4)
                name = m.group(2)
            else:
                m = re.match(r"^(\w+)\s*=(.*)$", s, flags=re.S)
                if not m or m.group(1) not in env:
                    raise Untranslatable("statement '%s'" % s[:40])
                name, rhs, ty = m.group(1), m.group(2), env[m.group(1)][1]
            p = P(lex(rhs))
            e = p.expr()
            if p.peek()[0] != "eof":
                raise Untranslatable("trailing tokens")
            if ty is None:
                txt, ty = self.tr(e, env)
                if ty == "num":
                    raise Untranslatable("numeric local")
            else:
                txt = self.coerce(e, ty, env)
            lets.append(f"let {self.local(name)} : {COQTY[ty]} := {txt} in")
            env[name] = (self.local(name), ty)
        if result is None:
            raise Untranslatable("no return")
        ps = " ".join(f"({self.local(n)} : {COQTY[t]})" for n, t in params)
        text = f"  Definition {cq} {ps} : {COQTY[ret]} :=\n" + "".join(f"    {l}\n" for l in lets) + f"    {result}."
        self.defs[cq] = dict(text=text, deps=set(self.deps), cname=cname, params=params, ret=ret)

    @staticmethod
    def local(n):
        return "a_" + n


def ordered(defs):
    out, seen = [], set()

    def visit(n, stack=()):
        if n in seen:
            return True
        if n not in defs or n in stack:
            return False
        for d in sorted(defs[n]["deps"]):
            if not visit(d, stack + (n,)):
                return False
        seen.add(n)
        out.append(n)
        return True
    for n in list(defs):
        visit(n)
    return out


def generate_all(repo):
    tr = Translator(repo)
    order = ordered(tr.defs)
    missing = [r for r in REQUIRED if coq_name(r, ()) not in order]
    if missing:
        raise Untranslatable("required stdlib functions not translated: " +
                             ", ".join(f"{m} ({tr.errors.get(m, 'dependency')})" for m in missing))
    lines = ["(* GENERATED by translate/gen_stdlib.py from libfive/stdlib/stdlib_impl.cpp -- do not edit *)",
             "From Coq Require Import List.",
             "From LF Require Import Base.Opcode Base.Num Stdlib.SExpr.",
             "Import ListNotations.",
             "", "Section StdGen.", "  Context {num : Type} (O : ops num).", ""]
    for n in order:
        lines.append(tr.defs[n]["text"])
        lines.append("")
    # dispatch on a number (Tree-returning, non-operator functions only), vectors flattened
    table = []
    hpp = open(os.path.join(repo, "libfive/stdlib/stdlib_impl.hpp")).read()
    declared = set(re.findall(r"^Tree\s+(\w+)\s*\(", hpp, flags=re.M))
    for n in order:
        d = tr.defs[n]
        if d["ret"] != "T" or d["cname"] not in declared:
            continue
        table.append(n)
    lines.append("  Definition std_dispatch (k : nat) (args : list (sx num)) : option (sx num) :=")
    lines.append("    match k, args with")
    meta = []
    for k, n in enumerate(table):
        d = tr.defs[n]
        pats, call = [], []
        idx = 0
        for pn, pt in d["params"]:
            w = {"T": 1, "V2": 2, "V3": 3}[pt]
            names = [f"x{idx + j}" for j in range(w)]
            idx += w
            pats += names
            call.append(names[0] if pt == "T" else "(%s %s)" % (pt, " ".join(names)))
        lines.append(f"    | {k}, [{'; '.join(pats)}] => Some ({n} {' '.join(call)})")
        meta.append(dict(k=k, name=d["cname"], coq=n, params=[[pn, pt] for pn, pt in d["params"]], nargs=idx))
    lines.append("    | _, _ => None")
    lines.append("    end.")
    lines.append("End StdGen.")
    lines.append("")
    skipped = {k: v for k, v in tr.errors.items()}
    lines.append("(* not translated (out of scope): " +
                 "; ".join(f"{k}: {v}" for k, v in sorted(skipped.items())).replace("*)", "* )") + " *)")
    coq = "\n".join(lines) + "\n"
    # C++ dispatch for the harness
    cpp = ["// GENERATED by translate/gen_stdlib.py -- do not edit",
           "static libfive::Tree std_dispatch(int k, const std::vector<libfive::Tree>& a) {",
           "    using namespace libfive;",
           "    switch (k) {"]
    for m in meta:
        idx = 0
        call = []
        for pn, pt in m["params"]:
            w = {"T": 1, "V2": 2, "V3": 3}[pt]
            parts = [f"a.at({idx + j})" for j in range(w)]
            idx += w
            call.append(parts[0] if pt == "T" else ("TreeVec2{%s}" if pt == "V2" else "TreeVec3{%s}") % ", ".join(parts))
        cpp.append(f"    case {m['k']}: if (a.size() != {m['nargs']}) break; return {m['name']}({', '.join(call)});")
    cpp += ["    default: break;", "    }", "    throw std::runtime_error(\"std_dispatch: bad call\");", "}", ""]
    # the C entry points of libfive_stdlib.h (generated wrappers in stdlib.cpp), same numbering
    hsrc = strip_comments(open(os.path.join(repo, "libfive/stdlib/libfive_stdlib.h")).read())
    cdecl = {}
    for name, ps in re.findall(r"LIBFIVE_STDLIB\s+(\w+)\s*\(([^;]*)\)\s*;", hsrc):
        cdecl[name] = [x.split()[0] for x in ps.split(",") if x.strip()]
    cpp += ["static libfive::Tree std_dispatch_c(int k, const std::vector<libfive::Tree>& a) {",
            "    auto P = [&](size_t i) { return (libfive_tree)a.at(i).operator->(); };",
            "    libfive_tree out = nullptr;",
            "    switch (k) {"]
    for m in meta:
        tys = cdecl.get(m["name"])
        want = [{"T": ("libfive_tree", "tfloat"), "V2": ("tvec2",), "V3": ("tvec3",)}[pt] for _, pt in m["params"]]
        if tys is None or len(tys) != len(want) or any(t not in w for t, w in zip(tys, want)):
            m["c_api"] = False
            continue
        m["c_api"] = True
        idx = 0
        call = []
        for pn, pt in m["params"]:
            w = {"T": 1, "V2": 2, "V3": 3}[pt]
            parts = [f"P({idx + j})" for j in range(w)]
            idx += w
            call.append(parts[0] if pt == "T" else ("tvec2{%s}" if pt == "V2" else "tvec3{%s}") % ", ".join(parts))
        cpp.append(f"    case {m['k']}: if (a.size() != {m['nargs']}) break; out = ::{m['name']}({', '.join(call)}); break;")
    cpp += ["    default: break;", "    }",
            "    if (!out) throw std::runtime_error(\"std_dispatch_c: bad call\");",
            "    return libfive::Tree::reclaim(out);", "}", ""]
    return coq, "\n".join(cpp), meta, skipped


def generators():
    def gen(repo):
        coq, cpp, meta, skipped = generate_all(repo)
        here = os.path.dirname(os.path.abspath(__file__))
        for path, text in ((os.path.join(here, "..", "harness", "gen_stdlib_dispatch.inc"), cpp),
                           (os.path.join(here, "..", "check", "gen_stdlib_table.json"),
                            json.dumps(dict(functions=meta, skipped=skipped), indent=1))):
            if not os.path.exists(path) or open(path).read() != text:
                with open(path, "w") as f:
                    f.write(text)
        return coq
    return {"Stdlib_gen.v": gen}


if __name__ == "__main__":
    import sys
    coq, cpp, meta, skipped = generate_all(sys.argv[1] if len(sys.argv) > 1 else "/repo")
    print(coq)
    print(json.dumps(skipped, indent=1))
