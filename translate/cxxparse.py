"""Small helpers shared by the source -> Coq translators (trusted base)."""
import re


def strip_comments(src):
    src = re.sub(r"/\*.*?\*/", "", src, flags=re.S)
    src = re.sub(r"//[^\n]*", "", src)
    return src


def function_body(src, signature_regex):
    """Returns the text between the braces of the first function whose header
    matches signature_regex (brace matching, comments already stripped)."""
    m = re.search(signature_regex, src)
    if not m:
        raise ValueError(f"function not found: {signature_regex}")
    i = src.index("{", m.end() - 1) if src[m.end() - 1] != "{" else m.end() - 1
    depth = 0
    for j in range(i, len(src)):
        if src[j] == "{":
            depth += 1
        elif src[j] == "}":
            depth -= 1
            if depth == 0:
                return src[i + 1:j]
    raise ValueError("unbalanced braces")


def switch_groups(body):
    """Parses 'case A: case B: return X;' groups of a switch body into
    [(labels, return_expr)] (only groups that end in a return)."""
    groups = []
    labels = []
    for tok in re.finditer(r"case\s+([\w:]+)\s*:|return\s+([^;]+);", body):
        if tok.group(1):
            labels.append(tok.group(1).split("::")[-1])
        else:
            if labels:
                groups.append((labels, tok.group(2).strip()))
            labels = []
    return groups
