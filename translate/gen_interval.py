"""libfive/include/libfive/eval/interval.hpp -> coq/theories/Gen/IntervalOps_gen.v

Every operation of the C++ class `Interval` (the may-be-NaN flag formula and the case analysis of each one) is parsed
from the header and re-emitted as a Coq definition [g_<op>] over the vocabulary of the hand-written model
Interval/IntervalModel.v (records [iops] / [bprims], [ival], [lower], [upper]).  Interval/IntervalAgree.v then proves
[g_<op> I B .. = <op> ..] for every number type, so an edit of interval.hpp (a flag using the wrong bound, a swapped
atan2 corner, a dropped disjunct) changes the generated term and breaks the agreement lemma.

What is done here:
  * a line preprocessor (#define NAME true/false, #if NAME / #else / #endif, #ifdef, #undef; #include/#pragma ignored);
  * the expression parser of gen_kernels.P, extended with statements that keep their operands (return, switch with
    labels, declarations with constructor arguments, compound assignment) and static_cast<T>(e);
  * a typed translation of expressions (F float, Z int, B bool, I Boost interval, V Interval, S State, L literal,
    N small integer built from booleans) into the model's vocabulary;
  * a symbolic execution of statement lists into let-chains: every declaration / assignment binds a fresh Coq name,
    one-armed and two-armed `if` are joined per assigned variable, `switch` on an integer built from booleans is
    interpreted for each value of the booleans (fallthrough included) and joined as nested `if`s.

Anything not understood raises (translate/gen_all.py then writes a file that does not compile)."""
import os
import re

from gen_kernels import P, lex, strip_comments, braces

HEADER = "libfive/include/libfive/eval/interval.hpp"


# --------------------------------------------------------------------------- preprocessor
def preprocess(src):
    defs, out, stack = {}, [], []        # stack of (parent_active, this_branch_active, any_taken)
    active = True
    for line in src.split("\n"):
        s = line.strip()
        if not s.startswith("#"):
            out.append(line if active else "")
            continue
        d = s[1:].split()
        if not d:
            raise ValueError("empty directive")
        k = d[0]
        if k in ("ifdef", "ifndef", "if"):
            if k == "if":
                if len(d) != 2:
                    raise ValueError("unsupported #if: " + s)
                if active:
                    if d[1] not in defs:
                        raise ValueError("#if of an undefined name: " + s)
                    if defs[d[1]] not in ("true", "false", "0", "1"):
                        raise ValueError("#if of a non-boolean macro: " + s)
                    c = defs[d[1]] in ("true", "1")
                else:
                    c = False
            else:
                c = (d[1] in defs) == (k == "ifdef")
            stack.append((active, c))
            active = active and c
        elif k == "else":
            parent, c = stack.pop()
            stack.append((parent, not c))
            active = parent and not c
        elif k == "endif":
            parent, _ = stack.pop()
            active = parent
        elif not active:
            pass
        elif k == "define":
            if len(d) != 3:
                raise ValueError("unsupported #define: " + s)
            defs[d[1]] = d[2]
        elif k == "undef":
            defs.pop(d[1], None)
        elif k in ("pragma", "include"):
            pass
        else:
            raise ValueError("unsupported directive: " + s)
        out.append("")
    if stack:
        raise ValueError("unbalanced #if")
    return "\n".join(out)


# --------------------------------------------------------------------------- parser
class IP(P):
    TYPES = ("auto", "bool", "float", "int", "I")

    def tok(self, k):
        return self.t[self.i + k] if self.i + k < len(self.t) else (None, None)

    def stmt(self):
        v = self.peek()
        if v == "if":
            self.eat("if"); self.eat("(")
            c = self.expr()
            self.eat(")")
            th = self.block_or_stmt()
            el = None
            if self.peek() == "else":
                self.eat("else")
                el = self.block_or_stmt()
            return ("if", c, th, el)
        if v == "return":
            self.eat()
            e = self.expr()
            self.eat(";")
            return ("return", e)
        if v == "break":
            self.eat(); self.eat(";")
            return ("break",)
        if v == "switch":
            self.eat(); self.eat("(")
            sc = self.expr()
            self.eat(")"); self.eat("{")
            items = []
            while self.peek() != "}":
                if self.peek() == "case":
                    self.eat()
                    if self.kind() != "num":
                        raise ValueError("case label is not a number: %r" % self.peek())
                    items.append(("case", int(self.eat())))
                    self.eat(":")
                elif self.peek() == "default":
                    self.eat(); self.eat(":")
                    items.append(("default",))
                else:
                    items.append(self.stmt())
            self.eat("}")
            return ("switch", sc, items)
        if v == "assert":
            self.eat(); self.eat("(")
            e = self.expr()
            self.eat(")"); self.eat(";")
            return ("assert", e)
        if v == "{":
            self.eat("{")
            b = self.stmts_until(("}",))
            self.eat("}")
            return ("block", b)
        if v in ("for", "while", "do", "goto", "continue", "try", "throw"):
            raise ValueError("unsupported statement: " + v)
        # declaration:  [static] [const] TYPE NAME = EXPR ;   or   TYPE NAME ( ARGS ) ;
        j = 0
        while self.tok(j)[1] in ("static", "const"):
            j += 1
        if self.tok(j)[1] in self.TYPES and self.tok(j + 1)[0] == "id" and self.tok(j + 2)[1] in ("=", "("):
            for _ in range(j):
                self.eat()
            ty = self.eat()
            name = self.eat()
            if self.peek() == "=":
                self.eat("=")
                e = self.expr()
            else:
                e = ("call", ("id", ty), self.args())
            self.eat(";")
            return ("decl", ty, name, e)
        if self.kind() == "id" and self.tok(1)[1] in ("*", "/", "+", "-") and self.tok(2)[1] == "=":
            name = self.eat(); op = self.eat(); self.eat("=")
            e = self.expr()
            self.eat(";")
            return ("assign", name, ("bin", op, ("id", name), e))
        lhs = self.expr()
        if self.peek() == "=":
            self.eat("=")
            rhs = self.expr()
            self.eat(";")
            if lhs[0] != "id":
                raise ValueError("assignment to a non-variable: %r" % (lhs,))
            return ("assign", lhs[1], rhs)
        self.eat(";")
        return ("expr", lhs)

    def postfix(self):
        if self.peek() == "static_cast":
            self.eat(); self.eat("<")
            ty = self.eat()
            self.eat(">")
            a = self.args()
            if len(a) != 1:
                raise ValueError("static_cast arity")
            return ("cast", ty, a[0])
        return super().postfix()


def parse_stmts(text):
    toks = lex(text)
    p = IP(toks)
    out = p.stmts_until((None,))
    if p.i != len(toks):
        raise ValueError("trailing tokens")
    return out


def parse_expr_list(text):
    """`i(lower, upper), maybe_nan(...)` (a mem-initializer list)"""
    toks = lex(text)
    p = IP(toks)
    out = [p.expr()]
    while p.peek() == ",":
        p.eat()
        out.append(p.expr())
    if p.i != len(toks):
        raise ValueError("trailing tokens in initializer list: %r" % p.peek())
    return out


# --------------------------------------------------------------------------- typed translation
RESERVED = {"lower", "upper", "iv", "nanf", "I", "B", "num", "mk", "fst", "snd", "in", "at", "as", "if", "then", "else",
            "let", "match", "end", "fun", "bnd", "ival", "state", "with", "true", "false", "negb", "orb", "andb",
            "is_inf", "contains_zero", "sanitize", "EMPTY", "FILLED", "AMBIGUOUS"}
BOOST_UN = ("square", "sqrt", "sin", "cos", "tan", "asin", "acos", "atan", "exp", "log", "abs")
ENUM = ("EMPTY", "FILLED", "AMBIGUOUS")


def paren(c):
    return c if re.fullmatch(r"[\w.%']+", c) else "(" + c + ")"


def lit_value(e):
    """(value, float_spelled) of a (possibly negated) numeric literal, else None"""
    if e[0] == "num":
        return (float(e[1]), not re.fullmatch(r"\d+", e[1]))
    if e[0] == "neg":
        v = lit_value(e[1])
        if v is not None:
            return (-v[0], v[1])
    return None


class Fn:
    """translation of one function body; env : C++ name -> (type, coq term[, ast])"""

    def __init__(self, selfobj=None):
        self.used = set(RESERVED)
        self.selfobj = selfobj
        self.skip_names = set()

    def fresh(self, base):
        if base in RESERVED:
            base = base + "_"
        n, k = base, 0
        while n in self.used:
            k += 1
            n = "%s_%d" % (base, k)
        self.used.add(n)
        return n

    # ---- coercions
    def asF(self, tc):
        t, c = tc
        if t == "F":
            return c
        if t == "L":
            v = c[0]
            if v == 0:
                return "i_zero I"
            if v == 1:
                return "i_one I"
            if v == -1:
                return "i_mone I"
            raise ValueError("float literal %r has no name in iops" % v)
        raise ValueError("float expected, found type %s: %r" % (t, c))

    def asB(self, tc):
        t, c = tc
        if t in ("B", "T"):
            return c
        raise ValueError("bool expected, found type %s: %r" % (t, c))

    def asZ(self, tc):
        t, c = tc
        if t == "Z":
            return c
        if t == "L" and c[0] == int(c[0]):
            return "%d%%Z" % int(c[0]) if c[0] >= 0 else "(%d)%%Z" % int(c[0])
        raise ValueError("int expected, found type %s: %r" % (t, c))

    # ---- expressions
    def ex(self, e, env):
        k = e[0]
        lv = lit_value(e)
        if lv is not None:
            return ("L", lv)
        if k == "id":
            v = e[1]
            if v in env:
                ent = env[v]
                return (ent[0], ent[1] if ent[0] != "N" else ent[2])
            if v == "INFINITY":
                return ("F", "i_pinf I")
            if v in ("true", "false"):
                return ("B", v)
            if v in ENUM:
                return ("S", v)
            raise ValueError("unknown identifier " + v)
        if k == "neg":
            x = e[1]
            if x == ("id", "INFINITY"):
                return ("F", "i_ninf I")
            if x == ("call", ("id", "float"), [("id", "M_PI")]):
                return ("F", "i_negpi I")
            t, c = self.ex(x, env)
            if t == "I":
                return ("I", "b_neg B %s" % paren(c))
            raise ValueError("negation of %r" % (x,))
        if k == "not":
            return ("B", "negb %s" % paren(self.asB(self.ex(e[1], env))))
        if k in ("or", "and"):
            l = self.asB(self.ex(e[1], env))
            r = self.asB(self.ex(e[2], env))
            op = "||" if k == "or" else "&&"
            # || and && are left-associative in both languages; parenthesise the right operand when compound
            lp = l if (k == "or" and e[1][0] == "or") or (k == "and" and e[1][0] == "and") else paren(l)
            return ("B", "%s %s %s" % (lp, op, paren(r)))
        if k == "bitand":
            l = self.ex(e[1], env)
            r = self.ex(e[2], env)
            if l[0] == "Z" and r[0] == "L" and not r[1][1] and r[1][0] > 0:
                n = int(r[1][0])
                if n & (n - 1) == 0:
                    # `x & 2^k` is non-zero exactly when bit k of x is set; only used as a truth value
                    return ("T", "Z.testbit %s %d" % (paren(l[1]), n.bit_length() - 1))
            raise ValueError("unsupported bitwise and: %r" % (e,))
        if k == "cmp":
            return self.cmp(e[1], self.ex(e[2], env), self.ex(e[3], env))
        if k == "tern":
            c = self.asB(self.ex(e[1], env))
            a = self.ex(e[2], env)
            b = self.ex(e[3], env)
            t = a[0] if a[0] != "L" else b[0]
            if t == "F":
                a, b = ("F", self.asF(a)), ("F", self.asF(b))
            if a[0] != b[0] or t in ("L", "N", "T"):
                raise ValueError("conditional arms of types %s / %s" % (a[0], b[0]))
            return (t, "if %s then %s else %s" % (c, a[1], b[1]))
        if k == "bin":
            return self.bin(e, env)
        if k == "cast":
            if e[1] == "int" and e[2][0] == "call" and e[2][1] == ("id", "std::floor") and len(e[2][2]) == 1:
                return ("Z", "i_floor_int I %s" % paren(self.asF(self.ex(e[2][2][0], env))))
            raise ValueError("unsupported cast: %r" % (e,))
        if k == "meth":
            return self.meth(e, env)
        if k == "call":
            return self.call(e, env)
        raise ValueError("unsupported expression: %r" % (e,))

    def cmp(self, o, l, r):
        if "Z" in (l[0], r[0]):
            for s in (l, r):
                # an int compared with a float-spelled literal is converted to float first; that is only the same
                # as the integer comparison (for every int) when the literal is 0
                if s[0] == "L" and s[1][1] and s[1][0] != 0:
                    raise ValueError("int compared with float literal %r" % (s[1][0],))
            a, b = paren(self.asZ(l)), paren(self.asZ(r))
            return ("B", {"==": "Z.eqb %s %s" % (a, b), "<": "Z.ltb %s %s" % (a, b), ">": "Z.ltb %s %s" % (b, a),
                          "<=": "Z.leb %s %s" % (a, b), ">=": "Z.leb %s %s" % (b, a)}[o])
        if l[0] == "L" and r[0] == "L":
            raise ValueError("comparison of two literals")
        a, b = paren(self.asF(l)), paren(self.asF(r))
        if o == "!=":
            raise ValueError("!= on floats")
        return ("B", {"==": "i_eqb I %s %s" % (a, b), "<": "i_ltb I %s %s" % (a, b), ">": "i_ltb I %s %s" % (b, a),
                      "<=": "i_leb I %s %s" % (a, b), ">=": "i_leb I %s %s" % (b, a)}[o])

    def bin(self, e, env):
        _, o, le, re_ = e
        if o == "/" and re_ == ("num", "2"):
            if le == ("id", "M_PI"):
                return ("F", "i_halfpi I")
            if le == ("neg", ("id", "M_PI")):
                return ("F", "i_neghalfpi I")
        l = self.ex(le, env)
        r = self.ex(re_, env)
        if l[0] == "I" and r[0] == "I":
            return ("I", "b_%s B %s %s" % ({"+": "add", "-": "sub", "*": "mul", "/": "div"}[o], paren(l[1]), paren(r[1])))
        if l[0] == "I" and r[0] in ("F", "L") and o == "*":
            return ("I", "b_scale B %s %s" % (paren(l[1]), paren(self.asF(r))))
        if l[0] == "L" and r[0] == "I" and o == "/" and l[1][0] == 1:
            return ("I", "b_recip B %s" % paren(r[1]))
        if o in ("+", "*") and {l[0], r[0]} <= {"B", "N", "L"} and {l[0], r[0]} & {"B", "N"}:
            for s in (l, r):
                if s[0] == "L" and (s[1][1] or s[1][0] != int(s[1][0])):
                    raise ValueError("float literal in integer arithmetic on booleans")
            return ("N", e)
        raise ValueError("unsupported arithmetic %s on types %s, %s" % (o, l[0], r[0]))

    def meth(self, e, env):
        _, obj, name, args = e
        t, c = self.ex(obj, env)
        if t == "V":
            if name in ("lower", "upper") and args == []:
                return ("F", "%s %s" % (name, paren(c)))
            if name == "i" and args is None:
                return ("I", "iv %s" % paren(c))
            if name == "maybe_nan" and args is None:
                return ("B", "nanf %s" % paren(c))
        if t == "I" and name in ("lower", "upper") and args == []:
            m = re.fullmatch(r"iv (\w+)", c)
            if m:
                return ("F", "%s %s" % (name, m.group(1)))
            return ("F", "%s %s" % ({"lower": "fst", "upper": "snd"}[name], paren(c)))
        raise ValueError("unsupported member %s on type %s" % (name, t))

    def call(self, e, env):
        _, fn, args = e
        if fn[0] != "id":
            raise ValueError("call of %r" % (fn,))
        f = fn[1]
        # libm facts of pow's flag (see the header of the generated file)
        if f == "std::isnan" and len(args) == 1 and args[0][0] == "call" and args[0][1] == ("id", "std::pow"):
            pa = args[0][2]
            if len(pa) == 2:
                x, y = lit_value(pa[0]), lit_value(pa[1])
                if x is not None and y is not None and x[0] == 0 and y[0] == -1:
                    return ("B", "libm_nan_on_zero_to_negative")
                if x is not None and x[0] == -1 and y is None:
                    return ("B", "libm_pow_m1_is_nan %s" % paren(self.asZ(self.ex(pa[1], env))))
            raise ValueError("unsupported std::isnan(std::pow(..)) shape")
        if f == "float" and args == [("id", "M_PI")]:
            return ("F", "i_pi I")
        a = [self.ex(x, env) for x in args]
        ts = [x[0] for x in a]
        if f == "Interval":
            if len(a) == 2 and ts[0] == "I":
                return ("V", "{| iv := %s; nanf := %s |}" % (a[0][1], self.asB(a[1])))
            if len(a) == 3:
                return ("V", "{| iv := (%s, %s); nanf := %s |}" % (self.asF(a[0]), self.asF(a[1]), self.asB(a[2])))
            raise ValueError("unsupported Interval constructor on types %s" % ts)
        if f in ("I", "Interval::I") and len(a) == 2:
            return ("I", "(%s, %s)" % (self.asF(a[0]), self.asF(a[1])))
        if f in ("I::empty", "Interval::I::empty") and not a:
            return ("I", "b_empty B")
        if f in ("boost::numeric::min", "boost::numeric::max", "boost::numeric::hull", "hull") and ts == ["I", "I"]:
            return ("I", "b_%s B %s %s" % (f.split("::")[-1], paren(a[0][1]), paren(a[1][1])))
        if f in ("boost::numeric::pow", "boost::numeric::nth_root") and ts == ["I", "Z"]:
            return ("I", "b_%s B %s %s" % (f.split("::")[-1], paren(a[0][1]), paren(a[1][1])))
        if f.startswith("boost::numeric::") and f.split("::")[-1] in BOOST_UN and ts == ["I"]:
            return ("I", "b_%s B %s" % (f.split("::")[-1], paren(a[0][1])))
        if f in ("std::isnan", "std::isfinite") and len(a) == 1:
            return ("B", "i_%s I %s" % (f[5:], paren(self.asF(a[0]))))
        if f == "std::isinf" and len(a) == 1:
            return ("B", "is_inf I %s" % paren(self.asF(a[0])))
        if f == "GLOBAL_atan2" and len(a) == 2:
            return ("F", "i_atan2 I %s %s" % (paren(self.asF(a[0])), paren(self.asF(a[1]))))
        if f in ("fmin", "fmax") and len(a) == 2:
            return ("F", "i_%s I %s %s" % (f, paren(self.asF(a[0])), paren(self.asF(a[1]))))
        if f == "int" and ts == ["F"]:
            return ("Z", "i_trunc I %s" % paren(a[0][1]))
        if f == "float" and args == [("id", "M_PI")]:
            return ("F", "i_pi I")
        if f == "float" and ts == ["Z"]:
            return ("F", "i_of_Z I %s" % paren(a[0][1]))
        if f in ("isEmpty", "isFilled") and not a and self.selfobj:
            return ("B", "g_is_%s I B %s" % (f[2:].lower(), self.selfobj))
        raise ValueError("unsupported call %s on types %s" % (f, ts))

    # M_PI alone is only understood inside the patterns above
    # ---- integer built from booleans
    def eval_n(self, ast, env, val):
        lv = lit_value(ast)
        if lv is not None:
            return int(lv[0])
        if ast[0] == "bin" and ast[1] in ("+", "*"):
            t, _ = self.ex(ast, env)
            if t == "N":
                a, b = self.eval_n(ast[2], env, val), self.eval_n(ast[3], env, val)
                return a + b if ast[1] == "+" else a * b
        t, c = self.ex(ast, env)
        if t == "B":
            return int(val[c])
        if t == "N":
            return self.eval_n(c, env, val)
        raise ValueError("not an integer built from booleans: %r" % (ast,))

    def atoms_n(self, ast, env, acc):
        if lit_value(ast) is not None:
            return
        t, c = self.ex(ast, env)
        if t == "B":
            if c not in acc:
                acc.append(c)
        elif t == "N":
            self.atoms_n(c[2], env, acc)
            self.atoms_n(c[3], env, acc)
        else:
            raise ValueError("not an integer built from booleans: %r" % (ast,))

    # ---- statements
    def run(self, stmts, env):
        """-> (prefix [(coq name, term, droppable)], returned term or None, assigned C++ names)"""
        prefix, assigned = [], set()
        for idx, st in enumerate(stmts):
            last = idx == len(stmts) - 1
            k = st[0]
            if k == "decl":
                _, ty, name, init = st
                if name in env:
                    raise ValueError("redeclaration of " + name)
                if init == ("call", ("id", "std::fegetround"), []):
                    self.skip_names.add(name)       # rounding-mode bookkeeping: no effect on any value
                    continue
                t, c = self.ex(init, env)
                if t == "L":
                    raise ValueError("literal initialiser of " + name)
                want = {"bool": ("B",), "float": ("F",), "int": ("Z",), "I": ("I",), "auto": ("B", "F", "Z", "I", "N")}[ty]
                if t not in want:
                    raise ValueError("declaration of %s: type %s for a %s" % (name, t, ty))
                if t == "N":
                    env[name] = ("N", None, c)
                else:
                    cn = self.fresh(name)
                    env[name] = (t, cn)
                    prefix.append((cn, c, False))
            elif k == "assign":
                _, name, rhs = st
                if name not in env:
                    raise ValueError("assignment to unknown " + name)
                t, c = self.ex(rhs, env)
                if t != env[name][0] or t == "N":
                    raise ValueError("assignment to %s changes its type" % name)
                cn = self.fresh(name)
                env[name] = (t, cn)
                assigned.add(name)
                prefix.append((cn, c, False))
            elif k == "block":
                env2 = dict(env)
                p, r, a = self.run(st[1], env2)
                prefix += p
                if r is not None:
                    if not last:
                        raise ValueError("statements after a returning block")
                    return prefix, r, assigned
                for n in a:
                    if n in env:
                        env[n] = env2[n]
                        assigned.add(n)
            elif k == "if":
                c = self.asB(self.ex(st[1], env))
                et = dict(env)
                pt, rt, at = self.run(st[2], et)
                ee = dict(env)
                pe, re_, ae = self.run(st[3], ee) if st[3] is not None else ([], None, set())
                if rt is not None and re_ is not None:
                    if not last:
                        raise ValueError("statements after if/else that both return")
                    return prefix, "if %s then %s else %s" % (c, wrap(pt, rt), wrap(pe, re_)), assigned
                if rt is not None or re_ is not None:
                    raise ValueError("if with only one returning arm")
                joins = []
                for n in [x for x in env if x in (at | ae)]:
                    tv, ev = wrap_val(pt, et[n][1]), wrap_val(pe, ee[n][1])
                    joins.append((n, "if %s then %s else %s" % (c, tv, ev)))
                self.join(joins, env, prefix, assigned)
            elif k == "switch":
                sc = st[1]
                t, ast = self.ex(sc, env)
                if t != "N":
                    raise ValueError("switch on something that is not an integer built from booleans")
                atoms = []
                self.atoms_n(ast, env, atoms)
                if not 1 <= len(atoms) <= 4:
                    raise ValueError("switch on %d booleans" % len(atoms))
                paths = {}
                for m in range(2 ** len(atoms)):
                    bits = tuple(bool((m >> (len(atoms) - 1 - i)) & 1) for i in range(len(atoms)))
                    v = self.eval_n(ast, env, dict(zip(atoms, bits)))
                    body = switch_path(st[2], v)
                    e2 = dict(env)
                    p, r, a = self.run(body, e2)
                    if r is not None:
                        raise ValueError("return inside switch")
                    paths[bits] = (p, e2, a)
                mod = set().union(*[a for (_, _, a) in paths.values()])
                joins = []
                for n in [x for x in env if x in mod]:
                    def build(bits):
                        if len(bits) == len(atoms):
                            p, e2, _ = paths[bits]
                            return wrap_val(p, e2[n][1])
                        a, b = build(bits + (True,)), build(bits + (False,))
                        return a if a == b else "if %s then %s else %s" % (atoms[len(bits)], paren_if(a), paren_if(b))
                    joins.append((n, build(())))
                self.join(joins, env, prefix, assigned)
            elif k == "return":
                if not last:
                    raise ValueError("statements after return")
                t, c = self.ex(st[1], env)
                if t not in ("V", "S", "B", "F"):
                    raise ValueError("return of type " + t)
                return prefix, c, assigned
            elif k == "expr":
                e = st[1]
                if (e[0] == "call" and e[1] == ("id", "std::fesetround") and len(e[2]) == 1 and e[2][0][0] == "id"
                        and e[2][0][1] in self.skip_names):
                    continue                          # restores the rounding mode saved above
                raise ValueError("unsupported expression statement: %r" % (e,))
            else:
                raise ValueError("unsupported statement here: " + k)
        return prefix, None, assigned

    def join(self, joins, env, prefix, assigned):
        new = []
        for n, term in joins:
            cn = self.fresh(n)
            new.append((n, cn))
            prefix.append((cn, term, True))
            assigned.add(n)
        for n, cn in new:                    # all joins are computed from the names before the join
            env[n] = (env[n][0], cn)


def paren_if(c):
    return "(" + c + ")" if c.startswith("if ") or c.startswith("let ") else c


def occurs(name, text):
    return re.search(r"(?<![\w'])%s(?![\w'])" % re.escape(name), text) is not None


def wrap(prefix, final, drop_all=False):
    """let-chain; bindings that nothing later mentions are dropped when they are joins (or all, inside an arm)"""
    keep, later = [], final
    for cn, term, droppable in reversed(prefix):
        if (droppable or drop_all) and not occurs(cn, later):
            continue
        keep.append((cn, term))
        later = term + " " + later
    out = final
    for cn, term in keep:
        out = "let %s := %s in %s" % (cn, term, out)
    return out


def wrap_val(prefix, name):
    """value of the Coq variable `name` after the arm `prefix` (lets are pure: those not needed are dropped)"""
    if prefix and prefix[-1][0] == name:
        return paren_if(wrap(prefix[:-1], prefix[-1][1], drop_all=True))
    return paren_if(wrap(prefix, name, drop_all=True))


def has_break(st):
    if st[0] == "break":
        return True
    if st[0] == "block":
        return any(has_break(s) for s in st[1])
    if st[0] == "if":
        return any(has_break(s) for s in st[2]) or any(has_break(s) for s in (st[3] or []))
    return False


def switch_path(items, v):
    """statements executed by `switch` for the value v: from its label (or default) up to the first break,
    falling through later labels"""
    start = None
    for i, it in enumerate(items):
        if it == ("case", v):
            if start is not None:
                raise ValueError("duplicate case %d" % v)
            start = i
    if start is None:
        for i, it in enumerate(items):
            if it == ("default",):
                start = i
    if start is None:
        return []
    out = []
    for it in items[start:]:
        if it[0] in ("case", "default"):
            continue
        if it == ("break",):
            return out
        if it[0] == "assert":
            raise ValueError("switch value %d reaches an assert" % v)
        if has_break(it):
            raise ValueError("break nested inside a switch arm")
        out.append(it)
    return out


# --------------------------------------------------------------------------- functions of the header
STATIC = {"min": "g_imin", "max": "g_imax", "atan2": "g_iatan2", "pow": "g_ipow", "nth_root": "g_inth_root",
          "mod": "g_imod", "nanfill": "g_inanfill", "compare": "g_icompare", "square": "g_isquare",
          "sqrt": "g_isqrt", "sin": "g_isin", "cos": "g_icos", "tan": "g_itan", "asin": "g_iasin",
          "acos": "g_iacos", "atan": "g_iatan", "exp": "g_iexp", "log": "g_ilog", "abs": "g_iabs",
          "recip": "g_irecip"}
FREE = {"+": "g_iadd", "-": "g_isub", "*": "g_imul", "/": "g_idiv"}
ORDER = ["g_iadd", "g_isub", "g_imul", "g_idiv", "g_imin", "g_imax", "g_iatan2", "g_ipow", "g_inth_root", "g_imod",
         "g_inanfill", "g_icompare", "g_isquare", "g_isqrt", "g_ineg", "g_isin", "g_icos", "g_itan", "g_iasin",
         "g_iacos", "g_iatan", "g_iexp", "g_ilog", "g_iabs", "g_irecip"]
COQTY = {"V": "@ival num", "F": "num", "B": "bool", "I": "@bnd num", "S": "state", "Z": "Z"}


def params(text):
    out = []
    for p in [x.strip() for x in text.split(",") if x.strip()]:
        m = re.fullmatch(r"(?:const\s+)?(Interval|I|float|bool)\s*&?\s*(\w+)", p)
        if not m:
            raise ValueError("unsupported parameter: " + p)
        out.append((m.group(2), {"Interval": "V", "I": "I", "float": "F", "bool": "B"}[m.group(1)]))
    return out


def body_at(src, brace_index):
    return braces(src, brace_index)[1:-1]


def definition(name, fn, ps, env_extra, body_stmts, rty):
    env = dict(env_extra)
    binders = []
    for n, t in ps:
        cn = fn.fresh(n)
        env[n] = (t, cn)
        binders.append("(%s : %s)" % (cn, COQTY[t]))
    prefix, ret, _ = fn.run(body_stmts, env)
    if ret is None:
        raise ValueError(name + ": control reaches the end without a return")
    return "Definition %s {num : Type} (I : @iops num) (B : @bprims num) %s : %s :=\n  %s." % (
        name, " ".join(binders), COQTY[rty], pretty(wrap(prefix, ret)))


def pretty(term):
    term = re.sub(r" in let ", " in\n  let ", term)
    term = re.sub(r" in (\{\||if )", r" in\n  \1", term)
    term = re.sub(r" (then|else) (if|\{\||\()", r"\n    \1 \2", term)
    return term


def one(src, regex, what):
    ms = list(re.finditer(regex, src))
    if len(ms) != 1:
        raise ValueError("%s: %d definitions found" % (what, len(ms)))
    return ms[0]


def generate(repo):
    raw = open(os.path.join(repo, HEADER)).read()
    src = preprocess(strip_comments(raw))
    src = re.sub(r"(?<![A-Za-z_0-9>:])::(\w+)", r"GLOBAL_\1", src)      # ::atan2 -> one identifier
    defs = {}

    def put(name, text):
        if name in defs:
            raise ValueError("duplicate definition of " + name)
        defs[name] = text

    # the accessors the whole mapping rests on
    for acc in ("lower", "upper"):
        m = one(src, r"float\s+%s\s*\(\s*\)\s*const\s*\{" % acc, acc + "()")
        fn = Fn("a")
        _, r, _ = fn.run(parse_stmts(body_at(src, m.end() - 1)), {"i": ("I", "iv a"), "maybe_nan": ("B", "nanf a")})
        if r != "%s a" % acc:
            raise ValueError("%s() is not i.%s()" % (acc, acc))
    m = one(src, r"bool\s+isSafe\s*\(\s*\)\s*const\s*\{", "isSafe")
    if lex(body_at(src, m.end() - 1)) != lex("return !maybe_nan;"):
        raise ValueError("isSafe changed")

    member_env = {"i": ("I", "iv a"), "maybe_nan": ("B", "nanf a")}
    for cname, gname, rty, rx in (("isFilled", "g_is_filled", "B", r"bool\s+isFilled\s*\(\s*\)\s*const\s*\{"),
                                  ("isEmpty", "g_is_empty", "B", r"bool\s+isEmpty\s*\(\s*\)\s*const\s*\{"),
                                  ("state", "g_state_of", "S", r"State\s+state\s*\(\s*\)\s*const\s*\{"),
                                  ("operator-()", "g_ineg", "V", r"Interval\s+operator\s*-\s*\(\s*\)\s*const\s*\{")):
        m = one(src, rx, cname)
        fn = Fn("a")
        fn.used.add("a")
        text = definition(gname, fn, [], member_env, parse_stmts(body_at(src, m.end() - 1)), rty)
        put(gname, text.replace("(B : @bprims num)  :", "(B : @bprims num) (a : @ival num) :"))
    m = one(src, r"enum\s+State\s*\{([^}]*)\}", "enum State")
    if [x.strip() for x in m.group(1).split(",")] != ["EMPTY", "FILLED", "AMBIGUOUS", "UNKNOWN"]:
        raise ValueError("enum State changed")

    # static member functions and the four free operators
    for m in re.finditer(r"static\s+Interval\s+(\w+)\s*\(([^)]*)\)\s*\{", src):
        if m.group(1) not in STATIC:
            raise ValueError("unknown static operation " + m.group(1))
        put(STATIC[m.group(1)], definition(STATIC[m.group(1)], Fn(), params(m.group(2)), {},
                                           parse_stmts(body_at(src, m.end() - 1)), "V"))
    for m in re.finditer(r"inline\s+Interval\s+operator\s*([-+*/])\s*\(([^)]*)\)\s*\{", src):
        put(FREE[m.group(1)], definition(FREE[m.group(1)], Fn(), params(m.group(2)), {},
                                         parse_stmts(body_at(src, m.end() - 1)), "V"))
    for n in ORDER:
        if n not in defs:
            raise ValueError("operation not found in the header: " + n)

    # constructors:  Interval(float, float)  and the protected  Interval(const I&, bool)
    def ctor(rx, what, gname):
        m = one(src, rx, what)
        ps = params(m.group(1))
        fn = Fn()
        env, binders = {}, []
        for n, t in ps:
            cn = fn.fresh(n)
            env[n] = (t, cn)
            binders.append("(%s : %s)" % (cn, COQTY[t]))
        inits = parse_expr_list(m.group(2))
        if lex(body_at(src, src.index("{", m.end() - 1))) != []:
            raise ValueError(what + ": constructor body is not empty")
        got = {}
        for e in inits:
            if e[0] != "call" or e[1][0] != "id" or e[1][1] not in ("i", "maybe_nan") or e[1][1] in got:
                raise ValueError(what + ": unsupported initializer")
            got[e[1][1]] = e[2]
        if set(got) != {"i", "maybe_nan"} or len(got["maybe_nan"]) != 1:
            raise ValueError(what + ": initializers")
        if len(got["i"]) == 2:
            bnd = "(%s, %s)" % tuple(fn.asF(fn.ex(x, env)) for x in got["i"])
        elif len(got["i"]) == 1:
            t, bnd = fn.ex(got["i"][0], env)
            if t != "I":
                raise ValueError(what + ": i initialised with type " + t)
        else:
            raise ValueError(what + ": i initializer arity")
        flag = fn.asB(fn.ex(got["maybe_nan"][0], env))
        return binders, bnd, flag

    b, bnd, flag = ctor(r"\bInterval\s*\(\s*(float\s+\w+\s*,\s*float\s+\w+)\s*\)\s*:([^{]*)\{", "Interval(float, float)",
                        "g_mk")
    put("g_mk", "Definition g_mk {num : Type} (I : @iops num) (B : @bprims num) %s : @ival num :=\n"
                "  {| iv := %s; nanf := %s |}." % (" ".join(b), bnd, flag))
    b3, bnd3, flag3 = ctor(r"\bInterval\s*\(\s*(float\s+\w+\s*,\s*float\s+\w+\s*,\s*bool\s+\w+)\s*\)\s*:([^{]*)\{",
                           "Interval(float, float, bool)", "g_mk3")
    put("g_mk3", "Definition g_mk3 {num : Type} (I : @iops num) (B : @bprims num) %s : @ival num :=\n"
                 "  {| iv := %s; nanf := %s |}." % (" ".join(b3), bnd3, flag3))
    bp, bndp, flagp = ctor(r"\bInterval\s*\(\s*(const\s+I\s*&\s*\w+\s*,\s*bool\s+\w+)\s*\)\s*:([^{]*)\{",
                           "Interval(const I&, bool)", "g_ctor")
    put("g_ctor_norm", "Definition g_ctor_norm {num : Type} (I : @iops num) (B : @bprims num) %s : @bnd num :=\n  %s."
        % (bp[0], bndp))
    put("g_ctor", "Definition g_ctor {num : Type} (I : @iops num) (B : @bprims num) %s : @ival num :=\n"
                  "  {| iv := g_ctor_norm I B %s; nanf := %s |}." % (" ".join(bp), bp[0].split()[0][1:], flagp))

    head = [
        "(* GENERATED by translate/gen_interval.py from " + HEADER + " -- do not edit.",
        "   One definition per operation of the C++ class Interval, in the vocabulary of Interval/IntervalModel.v;",
        "   Interval/IntervalAgree.v proves each of them equal to the hand-written model.",
        "",
        "   Conventions.  The protected constructor Interval(const I&, bool) is translated as [g_ctor] (it swaps",
        "   inverted bounds: [g_ctor_norm]); the operations below are nevertheless built with the plain record",
        "   {| iv := ..; nanf := .. |}, like the hand-written model: there the swap is applied to the outputs of the",
        "   Boost primitives (test driver), and [g_ctor_plain] (IntervalAgree.v) says the two coincide on a bound",
        "   that is not inverted.  `fegetround` / `fesetround` pairs are rounding-mode bookkeeping and are skipped.",
        "   An int compared with the literal 0 is compared in Z.  The two definitions below record facts about libm",
        "   that the C++ evaluates at run time inside pow's flag (glibc: pow(0.0f, -1.0f) = +inf, not NaN;",
        "   pow(-1.0f, n) is +-1 for every integer n); the run-time check covers them. *)",
        "From Coq Require Import ZArith Bool.",
        "From LF Require Import Interval.IntervalModel.",
        "",
        "Definition libm_nan_on_zero_to_negative : bool := false.   (* std::isnan(std::pow(0.0f, -1.0f)) *)",
        "Definition libm_pow_m1_is_nan (n : Z) : bool := false.     (* std::isnan(std::pow(-1.0f, n)) *)",
        ""]
    names = ["g_is_filled", "g_is_empty", "g_state_of", "g_mk", "g_mk3", "g_ctor_norm", "g_ctor"] + ORDER
    return "\n".join(head) + "\n" + "\n\n".join(defs[n] for n in names) + "\n"


def generators():
    return {"IntervalOps_gen.v": generate}


if __name__ == "__main__":
    import sys
    print(generate(sys.argv[1] if len(sys.argv) > 1 else "/repo"))
