"""C05: the two keep functions handed to Tape::push - the lambda in IntervalEvaluator::push (eval_interval.cpp,
decisions from the per-clause bounds and may-be-NaN flags) and the lambda in ArrayEvaluator::valueAndPush
(eval_array.cpp, decisions from the slot-0 values) - re-read from the source into Gen/KeepFns_gen.v, in the
vocabulary of Eval/Push.v.  if / else-if / return chains become nested ifs in source order; anything else raises."""
import os
import re

import gen_interval as g
from gen_kernels import strip_comments

KEEPS = {"Tape::KEEP_A": "KEEP_A", "Tape::KEEP_B": "KEEP_B", "Tape::KEEP_BOTH": "KEEP_BOTH",
         "Tape::KEEP_ALWAYS": "KEEP_ALWAYS"}


def lambda_body(src, header_rx, what):
    m = re.search(header_rx, src)
    if not m:
        raise ValueError(what + ": function not found")
    k = src.index("tape->push", m.end())
    lb = src.index("[&]", k)
    sig = src[lb:src.index("{", lb)]
    if [x for x in re.findall(r"Clause::Id\s*(?:/\*.*?\*/)?\s*(\w*)", sig)][1:] != ["a", "b"] or "Opcode::Opcode op" not in sig:
        raise ValueError(what + ": lambda signature changed: " + " ".join(sig.split()))
    b = src.index("{", lb)
    return g.parse_stmts(g.body_at(src, b))


class Tr:
    def __init__(self, kind):
        self.kind = kind       # "interval" | "point"

    def slot(self, e):
        if e == ("id", "a"):
            return "(c_a c)"
        if e == ("id", "b"):
            return "(c_b c)"
        raise ValueError("clause operand expected, got %r" % (e,))

    def num(self, e):
        if self.kind == "interval" and e[0] == "meth" and e[1][0] == "index" and e[1][1] == ("id", "i") and e[3] == []:
            if e[2] == "lower":
                return "(nth %s lo (o_zero O))" % self.slot(e[1][2])
            if e[2] == "upper":
                return "(nth %s hi (o_zero O))" % self.slot(e[1][2])
        if self.kind == "point" and e[0] == "call" and e[1] == ("id", "v") and len(e[2]) == 2 and e[2][1] == ("num", "0"):
            return "(nth %s v (o_zero O))" % self.slot(e[2][0])
        raise ValueError("unknown numeric expression %r" % (e,))

    def cond(self, e):
        k = e[0]
        if k == "cmp" and e[1] == "==" and e[2] == ("id", "op") and e[3][0] == "id" and e[3][1].startswith("Opcode::"):
            return "(opcode_eqb (c_op c) %s)" % e[3][1].split("::")[1]
        if k == "cmp" and e[1] == "==" and e[2] == ("id", "a") and e[3] == ("id", "b"):
            return "(Nat.eqb (c_a c) (c_b c))"
        if k == "cmp" and e[1] in (">", "<"):
            l, r = self.num(e[2]), self.num(e[3])
            return "(o_ltb O %s %s)" % ((r, l) if e[1] == ">" else (l, r))
        if k == "or":
            return "(%s || %s)" % (self.cond(e[1]), self.cond(e[2]))
        if k == "and":
            return "(%s && %s)" % (self.cond(e[1]), self.cond(e[2]))
        if k == "not":
            return "(negb %s)" % self.cond(e[1])
        if (self.kind == "interval" and k == "meth" and e[2] == "isSafe" and e[3] == [] and e[1][0] == "index"
                and e[1][1] == ("id", "i")):
            return "(negb (nth %s maybe_nan false))" % self.slot(e[1][2])      # isSafe() = !maybe_nan
        raise ValueError("unknown condition %r" % (e,))

    def stmts(self, sts):
        if not sts:
            raise ValueError("a path falls off the end of the keep function")
        st, rest = sts[0], list(sts[1:])
        if st[0] == "return":
            if st[1][0] != "id" or st[1][1] not in KEEPS:
                raise ValueError("unknown return value %r" % (st[1],))
            return KEEPS[st[1][1]]
        if st[0] == "block":
            return self.stmts(list(st[1]) + rest)
        if st[0] == "if":
            th = self.stmts(list(st[2]) + rest)
            el = self.stmts(list(st[3] or []) + rest)
            return "(if %s then %s else %s)" % (self.cond(st[1]), th, el)
        raise ValueError("unsupported statement in a keep function: %s" % st[0])


def generate(repo):
    iv = strip_comments(open(os.path.join(repo, "libfive/src/eval/eval_interval.cpp")).read())
    ar = strip_comments(open(os.path.join(repo, "libfive/src/eval/eval_array.cpp")).read())
    # NB: the lambda signatures comment out the unused id parameter; strip_comments removed it, so accept both
    def sig_ok(src, rx, what):
        return lambda_body(re.sub(r"Clause::Id\s*,", "Clause::Id ,", src), rx, what)
    s_iv = sig_ok(iv, r"IntervalEvaluator::push\s*\(\s*const\s+Tape::Handle\s*&\s*tape\s*\)", "IntervalEvaluator::push")
    s_ar = sig_ok(ar, r"ArrayEvaluator::valueAndPush\s*\(\s*const\s+Eigen::Vector3f\s*&\s*pt\s*,\s*const\s+Tape::Handle\s*&\s*tape\s*\)",
                  "ArrayEvaluator::valueAndPush")
    # the push types the two evaluators pass
    if not re.search(r"Tape::INTERVAL\s*,\s*R\s*\)", iv):
        raise ValueError("IntervalEvaluator::push no longer pushes an INTERVAL tape with its region")
    if not re.search(r"\}\s*,\s*Tape::SPECIALIZED\s*\)", ar):
        raise ValueError("ArrayEvaluator::valueAndPush no longer pushes a SPECIALIZED tape")
    t_iv = Tr("interval").stmts(s_iv)
    t_ar = Tr("point").stmts(s_ar)
    return "\n".join([
        "(* GENERATED by translate/gen_keep.py from libfive/src/eval/eval_interval.cpp (IntervalEvaluator::push) and",
        "   eval_array.cpp (ArrayEvaluator::valueAndPush): the keep functions handed to Tape::push -- do not edit *)",
        "From Coq Require Import List Bool Arith.",
        "From LF Require Import Base.Opcode Base.Num Eval.Deck Eval.Push.",
        "",
        "Section KeepGen.",
        "  Context {num : Type} (O : ops num).",
        "",
        "  Definition keep_interval_gen (lo hi : list num) (maybe_nan : list bool) (c : clause) : keep :=",
        "    " + t_iv + ".",
        "",
        "  Definition keep_point_gen (v : list num) (c : clause) : keep :=",
        "    " + t_ar + ".",
        "End KeepGen.",
        ""])


def generators():
    return {"KeepFns_gen.v": generate}


if __name__ == "__main__":
    import sys
    print(generate(sys.argv[1] if len(sys.argv) > 1 else "/repo"))
