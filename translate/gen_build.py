"""Tree::unary / Tree::binary of libfive/src/tree/tree.cpp re-read into Gen/BuildRules_gen.v as DATA: the
if / else-if ladders become rule tables in the vocabulary of Tree/BuildRules.v (guards, patterns that bind `v`,
tests on `v`, results), in SOURCE ORDER and with the source's else-if nesting.  Tree/BuildAgree.v then proves that
interpreting the tables equals the hand-written Build.mk_unary / Build.mk_binary.

A purpose-built parser: exactly the constructs that occur in the two functions are understood; anything else
raises (gen_all.py turns that into a file that does not compile).  The overloaded operators used in results
(`-rhs`, `rhs - v->lhs`, `lhs + v->lhs`, `square(lhs)`) are resolved to opcodes through the
LIBFIVE_TREE_OPERATORS list of include/libfive/tree/operations.hpp and the OP_UNARY / OP_BINARY definitions of
src/tree/operations.cpp, not assumed."""
import os
import re

from gen_kernels import strip_comments

TOK = re.compile(r"\s*(::|->|==|!=|\|\||&&|<=|>=|[0-9]+\.[0-9]*f?|\.[0-9]+f?|[0-9]+f?|[A-Za-z_]\w*|[{}()\[\];,<>=+\-*/!.&|?:])")


class BuildParseError(ValueError):
    pass


def lex(s):
    out, i = [], 0
    s = s.rstrip()
    while i < len(s):
        m = TOK.match(s, i)
        if not m:
            raise BuildParseError("cannot tokenise at: %r" % s[i:i + 40])
        out.append(m.group(1))
        i = m.end()
    return out


def function_tokens(src, header_rx, what):
    ms = list(re.finditer(header_rx, src))
    if len(ms) != 1:
        raise BuildParseError("%s: expected exactly one definition, found %d" % (what, len(ms)))
    b = src.index("{", ms[0].end() - 1)
    depth, j = 0, b
    while True:
        depth += {"{": 1, "}": -1}.get(src[j], 0)
        j += 1
        if depth == 0:
            break
    return lex(src[b:j])


# ---------------------------------------------------------------- statements
class P:
    def __init__(self, toks):
        self.t, self.i = toks, 0

    def peek(self):
        return self.t[self.i] if self.i < len(self.t) else None

    def eat(self, x):
        if self.peek() != x:
            raise BuildParseError("expected %r, got %r at token %d" % (x, self.peek(), self.i))
        self.i += 1

    def balanced(self, op, cl):
        """tokens between a matching op ... cl pair (the pair itself is dropped)"""
        self.eat(op)
        depth, out = 1, []
        while True:
            x = self.peek()
            if x is None:
                raise BuildParseError("unbalanced " + op)
            self.i += 1
            if x == op:
                depth += 1
            elif x == cl:
                depth -= 1
                if depth == 0:
                    return out
            out.append(x)

    def stmt(self):
        x = self.peek()
        if x == "{":
            self.eat("{")
            out = []
            while self.peek() != "}":
                out.append(self.stmt())
            self.eat("}")
            return ("block", out)
        if x == "if":
            self.eat("if")
            cond = self.balanced("(", ")")
            th = self.stmt()
            el = None
            if self.peek() == "else":
                self.eat("else")
                el = self.stmt()
            return ("if", cond, th, el)
        if x in ("switch", "for", "while", "do", "goto", "try", "throw", "case", "default", "break", "continue"):
            raise BuildParseError("unsupported statement: " + x)
        out, depth = [], 0
        while True:
            y = self.peek()
            if y is None:
                raise BuildParseError("statement without ;")
            self.i += 1
            if y in "({[":
                depth += 1
            elif y in ")}]":
                depth -= 1
            elif y == ";" and depth == 0:
                break
            out.append(y)
        if out and out[0] == "return":
            return ("return", out[1:])
        return ("simple", out)


def unblock(st):
    """a statement as a list of statements"""
    return list(st[1]) if st[0] == "block" else [st]


def ladder(st):
    """if / else-if ... chain -> [(cond, then)]; a trailing plain else is not a construct of these functions"""
    out = []
    while True:
        if st[0] != "if":
            raise BuildParseError("an if / else-if chain may not end in a plain else: %r" % (st,))
        out.append((st[1], st[2]))
        if st[3] is None:
            return out
        st = st[3]


def j(toks):
    return " ".join(toks)


# ---------------------------------------------------------------- operators
def operator_table(repo):
    hpp = strip_comments(open(os.path.join(repo, "libfive/include/libfive/tree/operations.hpp")).read())
    cpp = strip_comments(open(os.path.join(repo, "libfive/src/tree/operations.cpp")).read())
    flat = " ".join(cpp.replace("\\\n", " ").split())
    if "#define OP_UNARY(name, opcode) Tree name(const Tree& lhs) { return Tree::unary(Opcode::opcode, lhs); }" not in flat:
        raise BuildParseError("operations.cpp: OP_UNARY no longer forwards to Tree::unary(opcode, lhs)")
    if ("#define OP_BINARY(name, opcode) Tree name(const Tree& lhs, const Tree& rhs) "
            "{ return Tree::binary(Opcode::opcode, lhs, rhs); }") not in flat:
        raise BuildParseError("operations.cpp: OP_BINARY no longer forwards to Tree::binary(opcode, lhs, rhs)")
    m = re.search(r"#define\s+LIBFIVE_TREE_OPERATORS((?:[^\n]*\\\n)*[^\n]*)\n", hpp)
    if not m:
        raise BuildParseError("operations.hpp: LIBFIVE_TREE_OPERATORS not found")
    un, bi = {}, {}
    for kind, name, opc in re.findall(r"OP_(UNARY|BINARY)\(\s*([^,\s]+)\s*,\s*(\w+)\s*\)", m.group(1)):
        d = un if kind == "UNARY" else bi
        if name in d:
            raise BuildParseError("operator %s declared twice" % name)
        d[name] = opc
    return un, bi


# ---------------------------------------------------------------- translation
SIDES = {"lhs": "L", "rhs": "R"}
NODE_TYPES = {"TreeConstant": "PConst", "TreeUnaryOp": "PUnary"}


class Tr:
    def __init__(self, arity, ops):
        self.arity = arity                       # 1: Tree::unary, 2: Tree::binary
        self.un, self.bi = ops
        self.what = "Tree::unary" if arity == 1 else "Tree::binary"

    def err(self, msg):
        raise BuildParseError("%s: %s" % (self.what, msg))

    def side(self, s):
        if s not in SIDES or (self.arity == 1 and s != "lhs"):
            self.err("unknown operand %r" % s)
        return SIDES[s]

    # --- return expressions ---
    def operand(self, toks, bound):
        s = j(toks)
        if s in ("lhs", "rhs"):
            self.side(s)
            return "OLhs" if s == "lhs" else "ORhs"
        if s == "v -> lhs":
            if bound != "PUnary":
                self.err("`v->lhs` used where v is not a TreeUnaryOp")
            return "OInner"
        return None

    def default_ctor(self, toks):
        want = ("Tree ( new Data ( TreeUnaryOp { op , lhs } ) )" if self.arity == 1
                else "Tree ( new Data ( TreeBinaryOp { op , lhs , rhs } ) )")
        return j(toks) == want

    def result(self, toks, bound):
        s = j(toks)
        x = self.operand(toks, bound)
        if x:
            return "RRet " + x
        if s == "invalid ( )":
            return "RInvalid"
        if self.default_ctor(toks):
            return "RDefault"
        if toks and toks[0] == "-":                                   # unary minus
            x = self.operand(toks[1:], bound)
            if x:
                return "RUn %s %s" % (self.opc(self.un, "operator-"), x)
        m = re.fullmatch(r"(\w+) \( (.*) \)", s)                       # named unary operation
        if m and m.group(1) in self.un:
            x = self.operand(m.group(2).split(" "), bound)
            if x:
                return "RUn %s %s" % (self.opc(self.un, m.group(1)), x)
        for k, t in enumerate(toks):                                   # lhs <op> rhs
            if t in "+-*/" and 0 < k < len(toks) - 1:
                a, b = self.operand(toks[:k], bound), self.operand(toks[k + 1:], bound)
                if a and b:
                    return "RBin %s %s %s" % (self.opc(self.bi, "operator" + t), a, b)
        self.err("unknown return expression `%s`" % s)

    def opc(self, d, name):
        if name not in d:
            self.err("operator %s is not in LIBFIVE_TREE_OPERATORS" % name)
        return d[name]

    def fold_body(self, sts):
        node = "TreeUnaryOp { op , lhs }" if self.arity == 1 else "TreeBinaryOp { op , lhs , rhs }"
        want = [("simple", "auto tmp = Tree ( new Data ( %s ) )" % node),
                ("simple", "ArrayEvaluator eval ( tmp . with_flags ( TREE_FLAG_IS_OPTIMIZED ) )"),
                ("simple", "const float v = eval . value ( { 0.0f , 0.0f , 0.0f } )"),
                ("return", "Tree ( v )")]
        return [(k, j(t)) for k, t in sts] == want

    # --- conditions ---
    def op_disjunction(self, toks, lhs):
        """`<lhs> == Opcode::A || <lhs> == Opcode::B ...` -> [A; B] (None if not of that shape)"""
        out = []
        for part in j(toks).split(" || "):
            m = re.fullmatch(re.escape(lhs) + r" == Opcode :: (\w+)", part)
            if not m:
                return None
            out.append(m.group(1))
        return out

    def guard(self, toks):
        s = j(toks)
        m = re.fullmatch(r"Opcode :: args \( op \) != (\d+)", s)
        if m:
            return "GArityNot %s" % m.group(1)
        m = re.fullmatch(r"std :: get_if < TreeConstant > \( (\w+) \. ptr \)", s)
        if m:
            return "GConst %s" % self.side(m.group(1))
        if self.arity == 2 and s == "lhs -> op ( ) == Opcode :: CONSTANT && rhs -> op ( ) == Opcode :: CONSTANT":
            return "GBothConst"
        ops = self.op_disjunction(toks, "op")
        if ops:
            return "GOpIn [%s]" % "; ".join(ops)
        self.err("unknown guard `%s`" % s)

    def pattern(self, toks, declared):
        """-> (pat, kind of node bound to v or None, declared type of v afterwards)"""
        s = j(toks)
        m = re.fullmatch(r"auto v = std :: get_if < (\w+) > \( (\w+) \. ptr \)", s)
        if m and m.group(1) in NODE_TYPES:
            k = NODE_TYPES[m.group(1)]
            return "%s %s" % (k, self.side(m.group(2))), k, k
        m = re.fullmatch(r"\( v = std :: get_if < (\w+) > \( (\w+) \. ptr \) \)", s)
        if m and m.group(1) in NODE_TYPES:
            k = NODE_TYPES[m.group(1)]
            if declared != k:      # C++: v keeps the type of its `auto` declaration in the enclosing if
                self.err("`(v = get_if<%s>...)` assigns to a v declared with another type" % m.group(1))
            return "%s %s" % (k, self.side(m.group(2))), k, declared
        if self.arity == 2 and s in ("lhs . id ( ) == rhs . id ( )", "rhs . id ( ) == lhs . id ( )"):
            return "PSameId", None, declared
        self.err("unknown pattern `%s`" % s)

    def test(self, toks, bound):
        s = j(toks)
        m = re.fullmatch(r"v -> value == (- )?([0-9.]+)f?", s)
        if m:
            if bound != "PConst":
                self.err("`v->value` used where v is not a TreeConstant")
            val = float(m.group(2)) * (-1 if m.group(1) else 1)
            for c, name in ((0.0, "C0"), (1.0, "C1"), (-1.0, "CM1")):
                if val == c:
                    return "TValueIs " + name
            self.err("constant %r is not one of 0, 1, -1" % val)
        ops = self.op_disjunction(toks, "v -> op")
        if ops:
            if bound != "PUnary":
                self.err("`v->op` used where v is not a TreeUnaryOp")
            return "TOpIn [%s]" % "; ".join(ops)
        self.err("unknown test `%s`" % s)

    def single_return(self, st, bound):
        sts = unblock(st)
        if len(sts) != 1 or sts[0][0] != "return":
            self.err("expected a single return, got %r" % (sts,))
        return self.result(sts[0][1], bound)

    def tests(self, st, bound):
        sts = unblock(st)
        if len(sts) == 1 and sts[0][0] == "return":
            return [("TTrue", self.result(sts[0][1], bound))]
        if len(sts) != 1 or sts[0][0] != "if":
            self.err("a pattern body must be one if / else-if chain or one return: %r" % (sts,))
        return [(self.test(c, bound), self.single_return(b, bound)) for c, b in ladder(sts[0])]

    def chain(self, st):
        sts = unblock(st)
        if len(sts) != 1 or sts[0][0] != "if":
            self.err("an `op == ...` body must be one if / else-if chain: %r" % (sts,))
        out, declared = [], None
        for c, b in ladder(sts[0]):
            p, bound, declared = self.pattern(c, declared)
            out.append((p, self.tests(b, bound)))
        return out

    def table(self, toks):
        p = P(toks)
        st = p.stmt()
        if p.peek() is not None:
            self.err("trailing tokens after the function body")
        sts = unblock(st)
        if len(sts) != 2 or sts[0][0] != "if" or sts[1][0] != "return":
            self.err("the body must be one if / else-if chain followed by one return")
        rules = []
        for c, b in ladder(sts[0]):
            g = self.guard(c)
            if g.startswith("GOpIn"):
                rules.append((g, self.chain(b)))
            elif g.startswith("GArityNot"):
                rules.append((g, self.single_return(b, None)))
            else:
                if not self.fold_body(unblock(b)):
                    self.err("the body of the constant guard is not the evaluate-and-rewrap sequence")
                rules.append((g, "RFold"))
        return rules, self.result(sts[1][1], None)


def emit_table(name, tbl):
    rules, final = tbl
    lines = ["Definition %s : table :=" % name, "  (["]
    rl = []
    for g, b in rules:
        if isinstance(b, str):
            rl.append("    (%s, BRet (%s))" % (g, b))
        else:
            ps = []
            for p, ts in b:
                ps.append("        (%s, [%s])" % (p, "; ".join("(%s, %s)" % (t, r) for t, r in ts)))
            rl.append("    (%s, BChain [\n%s])" % (g, ";\n".join(ps)))
    lines.append(";\n".join(rl))
    lines.append("   ], %s)." % final)
    return "\n".join(lines)


def tables(repo):
    src = strip_comments(open(os.path.join(repo, "libfive/src/tree/tree.cpp")).read())
    ops = operator_table(repo)
    un = Tr(1, ops).table(function_tokens(
        src, r"Tree\s+Tree::unary\s*\(\s*Opcode::Opcode\s+op\s*,\s*const\s+Tree\s*&\s*lhs\s*\)\s*\{", "Tree::unary"))
    bi = Tr(2, ops).table(function_tokens(
        src, r"Tree\s+Tree::binary\s*\(\s*Opcode::Opcode\s+op\s*,\s*const\s+Tree\s*&\s*lhs\s*,\s*const\s+Tree\s*&\s*rhs\s*\)\s*\{",
        "Tree::binary"))
    return un, bi


def generate(repo):
    un, bi = tables(repo)
    return "\n".join([
        "(* GENERATED by translate/gen_build.py from libfive/src/tree/tree.cpp (Tree::unary, Tree::binary),",
        "   operator names resolved through include/libfive/tree/operations.hpp.  Do not edit. *)",
        "From Coq Require Import List.",
        "From LF Require Import Base.Opcode Tree.BuildRules.",
        "Import ListNotations.",
        "",
        emit_table("unary_rules_gen", un),
        "",
        emit_table("binary_rules_gen", bi),
        ""])


def generators():
    return {"BuildRules_gen.v": generate}


if __name__ == "__main__":
    import sys
    print(generate(sys.argv[1] if len(sys.argv) > 1 else os.environ.get("VERIF_REPO", "/repo")))
