"""opcode.hpp / opcode.cpp -> OpcodeTable_gen.v (T1 tie, regenerated every run).
Reads the *unpacked* OPCODES X-macro, LAST_OP, and the switch tables of
Opcode::args / isCommutative / isIdempotent."""
import re
from cxxparse import strip_comments, function_body, switch_groups


def generate(repo):
    hpp = strip_comments(open(f"{repo}/libfive/include/libfive/tree/opcode.hpp").read())
    cpp = strip_comments(open(f"{repo}/libfive/src/tree/opcode.cpp").read())
    # first #define OPCODES block = the default (unpacked) numbering
    m = re.search(r"#ifndef\s+LIBFIVE_PACKED_OPCODES\s*#define\s+OPCODES(.*?)#else", hpp, flags=re.S)
    if not m:
        raise ValueError("OPCODES macro (unpacked variant) not found")
    codes = re.findall(r"OPCODE\(\s*(\w+)\s*,\s*(\d+)\s*\)", m.group(1))
    last = re.search(r"LAST_OP\s*=\s*(\d+)", hpp)
    if not codes or not last:
        raise ValueError("cannot parse opcode table")
    args = []
    for labels, ret in switch_groups(function_body(cpp, r"size_t\s+Opcode::args\s*\(")):
        for l in labels:
            if l != "LAST_OP":
                args.append((l, ret))
    comm = [l for labels, ret in switch_groups(function_body(cpp, r"bool\s+Opcode::isCommutative\s*\("))
            for l in labels if ret == "true"]
    idem = [l for labels, ret in switch_groups(function_body(cpp, r"bool\s+Opcode::isIdempotent\s*\("))
            for l in labels if ret == "true"]

    def coq_args(r):
        return {"0": "Some 0%nat", "1": "Some 1%nat", "2": "Some 2%nat", "-1": "None"}[r]
    # END_OF_ITEM in serializer/deserializer
    ser = strip_comments(open(f"{repo}/libfive/src/tree/serializer.cpp").read())
    eoi = re.search(r"Serializer::END_OF_ITEM\s*=\s*(0x[0-9a-fA-F]+|\d+)", ser)
    eoi_v = int(eoi.group(1), 0) if eoi else -1
    out = ["(* GENERATED from libfive/include/libfive/tree/opcode.hpp and libfive/src/tree/opcode.cpp",
           "   by translate/gen_opcode.py on every run; do not edit. *)",
           "From Coq Require Import List NArith.",
           "From LF Require Import Base.Opcode.",
           "Import ListNotations.",
           "Local Open Scope N_scope.",
           "Definition gen_codes : list (opcode * N) :=",
           "  [" + "; ".join(f"({n}, {c})" for n, c in codes) + "].",
           f"Definition gen_last_op : N := {last.group(1)}.",
           f"Definition gen_end_of_item : N := {eoi_v if eoi_v >= 0 else 0}.",
           "Definition gen_args : list (opcode * option nat) :=",
           "  [" + "; ".join(f"({n}, {coq_args(r)})" for n, r in args) + "].",
           "Definition gen_commutative : list opcode := [" + "; ".join(comm) + "].",
           "Definition gen_idempotent : list opcode := [" + "; ".join(idem) + "].",
           ""]
    return "\n".join(out)
