// LIBS: core
// C14: operations on shared expression DAGs from several threads.
//   scenario <seed> <nthreads> <ops_per_thread>
//   lastref  <seed> <nthreads> <trials>
//       each trial: a shared sub-DAG is built, one distinct parent per thread is built on it, the
//       builder's own handles are dropped, and the threads destroy their parents at the same
//       moment (released from a spin barrier) so that TOGETHER they drop the last references;
//       afterwards the number of live nodes (LIBFIVE_VERIF counter) must be back at its baseline
// Every thread works on the same shared trees: copy / move / destroy, print, optimise, flatten, remap,
// serialise, build evaluators and evaluate.  Each answer is compared with the answer computed
// sequentially before the threads start.  Run under ThreadSanitizer by check/props/c14.py.
#include <cstdio>
#include <cstring>
#include <cmath>
#include <iostream>
#include <sstream>
#include <vector>
#include <string>
#include <thread>
#include <atomic>
#include <random>
#include <map>

#include "libfive/tree/tree.hpp"
#include "libfive/tree/data.hpp"
#include "libfive/tree/archive.hpp"
#include "libfive/tree/opcode.hpp"
#include "libfive/eval/eval_array.hpp"
#include "libfive/eval/eval_interval.hpp"

using namespace libfive;

static std::vector<Tree> build_shared(std::mt19937& rng, int n) {
    std::vector<Tree> ts = {Tree::X(), Tree::Y(), Tree::Z(), Tree(1.5f), Tree(-0.5f)};
    static const Opcode::Opcode un[] = {Opcode::OP_SQUARE, Opcode::OP_NEG, Opcode::OP_SIN, Opcode::OP_COS, Opcode::OP_ABS, Opcode::OP_ATAN};
    static const Opcode::Opcode bin[] = {Opcode::OP_ADD, Opcode::OP_MUL, Opcode::OP_MIN, Opcode::OP_MAX, Opcode::OP_SUB};
    for (int i = 0; i < n; ++i) {
        auto pick = [&]() { return ts[ts.size() - 1 - std::min<size_t>(ts.size() - 1, rng() % 6)]; };
        int r = rng() % 10;
        if (r < 3) ts.push_back(Tree::unary(un[rng() % 6], pick()));
        else if (r < 8) ts.push_back(Tree::binary(bin[rng() % 5], pick(), ts[rng() % ts.size()]));
        else ts.push_back(pick().remap(ts[rng() % 3] + Tree(0.25f), ts[rng() % 3], ts[rng() % 3] * Tree(2.0f)));
    }
    return ts;
}

static std::string print_tree(const Tree& t) { std::stringstream ss; ss << t; return ss.str(); }
static float eval_at(const Tree& t, const Eigen::Vector3f& p) { ArrayEvaluator e(t); return e.value(p); }
static bool close(float a, float b) {
    if (std::isnan(a) && std::isnan(b)) return true;
    return std::fabs(a - b) <= 1e-4f * (1 + std::fabs(a) + std::fabs(b));
}

int main() {
    std::string line;
    while (std::getline(std::cin, line)) {
        std::istringstream ls(line);
        std::string cmd; ls >> cmd;
        if (cmd == "coldxyz") {
            // coldxyz <nthreads>: must be the FIRST command of a fresh process: the threads are the first users of
            // Tree::X() / Y() / Z() in the process (singleton creation) and every one of them must end up with the
            // same axis nodes and a correctly bound evaluator
            int nth; ls >> nth;
            std::atomic<int> ready(0);
            std::atomic<bool> go(false);
            std::vector<float> val(nth, 0.0f), val2(nth, 0.0f);
            std::vector<const void*> idx(nth, nullptr), idy(nth, nullptr), idz(nth, nullptr);
            std::vector<std::thread> th;
            for (int t = 0; t < nth; ++t) {
                th.emplace_back([&, t]() {
                    ++ready;
                    while (!go.load(std::memory_order_acquire)) { }
                    Tree x = Tree::X(), y = Tree::Y(), z = Tree::Z();
                    idx[t] = x.id(); idy[t] = y.id(); idz[t] = z.id();
                    Tree s = sqrt(x * x + y * y + z * z) - Tree(1.0f);
                    val[t] = eval_at(s, Eigen::Vector3f(2.0f, 3.0f, 6.0f));
                    Tree r = s.remap(y, z, x);
                    val2[t] = eval_at(r, Eigen::Vector3f(2.0f, 3.0f, 6.0f));
                });
            }
            while (ready.load() < nth) { }
            go.store(true, std::memory_order_release);
            for (auto& x : th) x.join();
            long bad = 0;
            for (int t = 0; t < nth; ++t) {
                if (!close(val[t], 6.0f) || !close(val2[t], 6.0f)) ++bad;
                if (idx[t] != Tree::X().id() || idy[t] != Tree::Y().id() || idz[t] != Tree::Z().id()) ++bad;
            }
            std::cout << "CX threads=" << nth << " bad=" << bad << std::endl;
            continue;
        }
        if (cmd == "lastref") {
            unsigned seed; int nth, trials; ls >> seed >> nth >> trials;
            std::mt19937 rng(seed);
            long bad = 0, freed = 0;
            { Tree warm = Tree::X() + Tree::Y() + Tree::Z(); (void)warm; }
            for (int tr = -1; tr < trials; ++tr) {   // trial -1 warms function-local static nodes up and is not counted
                const long base = TreeData::verif_live_nodes().load();
                std::vector<Tree> parents;
                {
                    // shared part: a chain / small DAG of depth 1..4 over X, Y, Z and constants
                    Tree s = Tree::X() * Tree(float(1 + rng() % 7));
                    int depth = rng() % 4;
                    for (int d = 0; d < depth; ++d) {
                        switch (rng() % 3) {
                            case 0: s = s + Tree::Y() * Tree(float(d + 2)); break;
                            case 1: s = Tree::unary(Opcode::OP_SIN, s); break;
                            default: s = Tree::binary(Opcode::OP_MIN, s, s * Tree(0.5f)); break;
                        }
                    }
                    Tree s2 = (rng() & 1) ? s : Tree::unary(Opcode::OP_NEG, s);
                    for (int t = 0; t < nth; ++t) {
                        switch (rng() % 3) {
                            case 0: parents.push_back(s - Tree(float(t + 1))); break;
                            case 1: parents.push_back(Tree::binary(Opcode::OP_MAX, s2, Tree(float(t) + 0.5f))); break;
                            default: parents.push_back(Tree::unary(Opcode::OP_SQUARE, s2)); break;
                        }
                    }
                }   // the builder's handles to the shared part are gone: only the parents own it
                const long alive = TreeData::verif_live_nodes().load() - base;
                std::atomic<int> ready(0);
                std::atomic<bool> go(false);
                std::vector<std::thread> th;
                for (int t = 0; t < nth; ++t) {
                    th.emplace_back([&, t]() {
                        Tree mine = std::move(parents[t]);
                        ++ready;
                        while (!go.load(std::memory_order_acquire)) { }
                        mine = Tree::invalid();          // drops this thread's parent
                    });
                }
                while (ready.load() < nth) { }
                go.store(true, std::memory_order_release);
                for (auto& x : th) x.join();
                parents.clear();
                const long after = TreeData::verif_live_nodes().load() - base;
                if (tr < 0) continue;
                freed += alive;
                if (after != 0) { ++bad; std::cerr << "LRBAD trial=" << tr << " after=" << after << " alive=" << alive << std::endl; }
            }
            std::cout << "LR seed=" << seed << " threads=" << nth << " trials=" << trials
                      << " freed=" << freed << " bad=" << bad << std::endl;
            continue;
        }
        if (cmd != "scenario") continue;
        unsigned seed; int nth, nops; ls >> seed >> nth >> nops;
        std::mt19937 rng(seed);
        // NOTE: nothing is printed / optimised before the threads start in "cold" scenarios (odd seeds),
        // so that lazily initialised tables are first touched concurrently
        std::vector<Tree> shared = build_shared(rng, 12 + seed % 20);
        const Eigen::Vector3f pts[3] = {{0.3f, -0.7f, 0.2f}, {1.0f, 0.5f, -0.25f}, {-0.6f, 0.1f, 0.9f}};
        bool cold = seed & 1;
        std::vector<std::string> ref_print(shared.size());
        std::vector<std::array<float, 3>> ref_val(shared.size());
        if (!cold) {
            for (size_t i = 0; i < shared.size(); ++i) {
                ref_print[i] = print_tree(shared[i]);
                for (int k = 0; k < 3; ++k) ref_val[i][k] = eval_at(shared[i], pts[k]);
            }
        }
        std::atomic<long> ok(0), bad(0);
        std::vector<std::vector<std::string>> got_print(nth, std::vector<std::string>(shared.size()));
        std::vector<std::vector<std::array<float, 3>>> got_val(nth, std::vector<std::array<float, 3>>(shared.size()));
        std::vector<std::thread> th;
        for (int t = 0; t < nth; ++t) {
            th.emplace_back([&, t]() {
                std::mt19937 r(seed * 7919u + t);
                for (int k = 0; k < nops; ++k) {
                    size_t i = r() % shared.size();
                    int op = r() % 8;
                    if (op == 0) { Tree a = shared[i]; Tree b = std::move(a); Tree c(b); Tree d = Tree::invalid(); d = c; (void)d; ++ok; }
                    else if (op == 1) { got_print[t][i] = print_tree(shared[i]); ++ok; }
                    else if (op == 2) { Tree o = shared[i].optimized(); float v = eval_at(o, pts[0]); got_val[t][i][0] = v; ++ok; }
                    else if (op == 3) { Tree f = shared[i].flatten(); got_val[t][i][1] = eval_at(f, pts[1]); ++ok; }
                    else if (op == 4) { got_val[t][i][2] = eval_at(shared[i], pts[2]); ++ok; }
                    else if (op == 5) { Tree m = shared[i].remap(Tree::Y(), Tree::X(), Tree::Z() + shared[r() % 3]); (void)m.flatten(); ++ok; }
                    else if (op == 6) {
                        Archive a; a.addShape(shared[i], "s", "d", {});
                        std::stringstream ss; a.serialize(ss);
                        auto b = Archive::deserialize(ss);
                        if (b.shapes.size() != 1) ++bad; else ++ok;
                    }
                    else { IntervalEvaluator iv(shared[i]); auto I = iv.eval({-1, -1, -1}, {1, 1, 1}); (void)I; ++ok; }
                }
            });
        }
        for (auto& x : th) x.join();
        // reference answers (computed now when the scenario was cold), then compare every thread's answers
        for (size_t i = 0; i < shared.size(); ++i) {
            if (cold) {
                ref_print[i] = print_tree(shared[i]);
                for (int k = 0; k < 3; ++k) ref_val[i][k] = eval_at(shared[i], pts[k]);
            }
            // conditioning: the optimised / flattened tree re-associates sums (operand order follows heap addresses), so on
            // an ill-conditioned expression (sin of a huge number, a difference of nearly equal terms) even the SEQUENTIAL
            // optimised tree evaluates differently from the plain one; such items say nothing about threads
            bool cond_ok[3] = {true, true, true};
            {
                float so = eval_at(shared[i].optimized(), pts[0]);
                float sf = eval_at(shared[i].flatten(), pts[1]);
                cond_ok[0] = close(so, ref_val[i][0]);
                cond_ok[1] = close(sf, ref_val[i][1]);
                // ... and two evaluators built from one tree may associate differently too: a value that moves when the
                // point moves by a few ulps (cos of a large product) cannot be compared between two builds
                for (int k = 0; k < 3; ++k) for (float sgn : {1.0f, -1.0f}) {
                    Eigen::Vector3f q = pts[k].array() * (1.0f + sgn * 4e-7f) + sgn * 4e-7f;
                    float vq = eval_at(shared[i], q);
                    if (!(std::fabs(vq - ref_val[i][k]) <= 0.25e-4f * (1 + std::fabs(vq) + std::fabs(ref_val[i][k]))) &&
                        !(std::isnan(vq) && std::isnan(ref_val[i][k]))) cond_ok[k] = false;
                }
            }
            for (int t = 0; t < nth; ++t) {
                if (!got_print[t][i].empty() && got_print[t][i] != ref_print[i]) ++bad;
                for (int k = 0; k < 3; ++k) {
                    float g = got_val[t][i][k];
                    if (!cond_ok[k]) continue;
                    if (g != 0.0f && !close(g, ref_val[i][k])) {
                        ++bad;
                        if (getenv("VERIF_TH_DEBUG")) std::cerr << "BAD tree=" << i << " k=" << k << " got=" << g << " ref=" << ref_val[i][k] << " expr=" << print_tree(shared[i]) << "\n";
                    }
                }
            }
        }
        std::cout << "TH seed=" << seed << " threads=" << nth << " ok=" << ok.load() << " bad=" << bad.load() << std::endl;
    }
    return 0;
}
