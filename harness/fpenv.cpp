// LIBS: core render
// C12 harness: every opcode x evaluator kind x input class x rounding mode, plus tree
// construction with constant folding and the rendering / solver entry points; the calling
// thread's floating-point environment (rounding mode, MXCSR control bits incl. FTZ/DAZ and
// exception masks -- not the sticky flags --, x87 control word) must be unchanged by each call.
#include <cstdio>
#include <cstring>
#include <cmath>
#include <cfenv>
#include <iostream>
#include <sstream>
#include <vector>
#include <string>
#include <map>
#include <xmmintrin.h>

#include "libfive.h"
#include "libfive/tree/tree.hpp"
#include "libfive/eval/evaluator.hpp"
#include "libfive/eval/eval_array.hpp"
#include "libfive/eval/eval_deriv_array.hpp"
#include "libfive/eval/eval_interval.hpp"
#include "libfive/eval/eval_feature.hpp"
#include "libfive/eval/eval_jacobian.hpp"
#include "libfive/solve/solver.hpp"
#include "libfive/render/discrete/heightmap.hpp"
#include "libfive/render/discrete/voxels.hpp"
#include "libfive/render/brep/mesh.hpp"
#include "libfive/render/brep/contours.hpp"
#include "libfive/render/brep/settings.hpp"
#include "libfive/render/brep/region.hpp"

using namespace libfive;

struct Env { int rnd; unsigned mxcsr; unsigned short x87; };
static Env get_env() {
    Env e; e.rnd = fegetround(); e.mxcsr = _mm_getcsr() & ~0x3Fu;
    unsigned short cw; __asm__ __volatile__("fnstcw %0" : "=m"(cw)); e.x87 = cw; return e;
}
static bool same(const Env& a, const Env& b) { return a.rnd == b.rnd && a.mxcsr == b.mxcsr && a.x87 == b.x87; }
static std::string show(const Env& e) {
    char b[64]; snprintf(b, sizeof b, "rnd=%d mxcsr=%04x x87=%04x", e.rnd, e.mxcsr, e.x87); return b;
}

static const char* OPNAMES[] = {
#define OPCODE(s, i) #s,
    OPCODES
#undef OPCODE
};
static Opcode::Opcode OPVALS[] = {
#define OPCODE(s, i) Opcode::s,
    OPCODES
#undef OPCODE
};

static long total = 0, bad = 0;
static int cur_mode = 0;
template <typename F> static void probe(const std::string& site, F f) {
    Env before = get_env();
    try { f(); } catch (std::exception&) { }
    Env after = get_env();
    ++total;
    if (!same(before, after)) {
        ++bad;
        std::cout << "BAD site=" << site << " mode=" << cur_mode << " before[" << show(before) << "] after[" << show(after) << "]\n";
    }
    // restore for the next probe
    fesetround(before.rnd); _mm_setcsr((_mm_getcsr() & 0x3F) | before.mxcsr);
}

int main(int argc, char** argv) {
    int quick = argc > 1 ? atoi(argv[1]) : 1;
    const int modes[4] = {FE_TONEAREST, FE_DOWNWARD, FE_UPWARD, FE_TOWARDZERO};
    // input classes: negative / zero / positive / non-integer / out of domain / huge / inf / nan
    const float classes[] = {-8.0f, -0.5f, 0.0f, 0.5f, 1.0f, 3.0f, 2.5f, 1e30f, -1e30f, INFINITY, -INFINITY, NAN};
    for (int m = 0; m < 4; ++m) {
        cur_mode = m;
        fesetround(modes[m]);
        for (unsigned oi = 0; oi < sizeof(OPVALS) / sizeof(OPVALS[0]); ++oi) {
            Opcode::Opcode op = OPVALS[oi];
            int args = Opcode::args(op);
            if (args != 1 && args != 2) continue;
            // constant exponents: POW and NTH_ROOT branch on the sign / parity / size of the exponent
            // (a negative power goes through the reciprocal, 0 and 1 through shortcuts)
            for (float expo : {2.0f, 3.0f, -1.0f, -2.0f, -3.0f, 0.0f, 1.0f, 4.0f, 5.0f}) {
                Tree t = Tree::X();
                bool cexp = (op == Opcode::OP_POW || op == Opcode::OP_NTH_ROOT);
                if (args == 1) t = Tree::unary(op, Tree::X());
                else if (cexp) t = Tree::binary(op, Tree::X(), Tree(expo));
                else t = Tree::binary(op, Tree::X(), Tree::Y());
                if (!cexp && expo != 2.0f) continue;
                if (op == Opcode::OP_NTH_ROOT && expo < 1.0f) continue;
                char ex[16]; snprintf(ex, sizeof ex, "^%g", expo);
                std::string base = std::string(OPNAMES[oi]) + (cexp ? ex : "");
                Evaluator ev(t);
                for (float a : classes) for (float b : {a, 2.0f, -3.0f, 0.0f}) {
                    if (cexp && b != a) continue;
                    char cls[48]; snprintf(cls, sizeof cls, "(%g,%g)", a, b);
                    Eigen::Vector3f p(a, b, 0.25f);
                    probe(base + ":point" + cls, [&] { ev.value(p); });
                    probe(base + ":batch" + cls, [&] { for (int k = 0; k < 17; ++k) ev.set(p, k); ev.values(17); });
                    probe(base + ":deriv" + cls, [&] { ev.deriv(p); });
                    probe(base + ":derivs" + cls, [&] { for (int k = 0; k < 5; ++k) ev.set(p, k); ev.derivs(5); });
                    probe(base + ":feature" + cls, [&] { ev.features(p); });
                    probe(base + ":inside" + cls, [&] { ev.isInside(p); });
                    probe(base + ":jacobian" + cls, [&] { ev.gradient(p); });
                    float lo = std::isnan(a) ? 0.0f : a, hi = std::isnan(b) ? 1.0f : b;
                    if (lo > hi) std::swap(lo, hi);
                    probe(base + ":interval" + cls, [&] { ev.eval(Eigen::Vector3f(lo, lo, 0), Eigen::Vector3f(hi, hi, 1)); });
                    probe(base + ":intervalpush" + cls, [&] { ev.intervalAndPush(Eigen::Vector3f(lo, lo, 0), Eigen::Vector3f(hi, hi, 1)); });
                    // tree construction with constant folding
                    probe(base + ":fold" + cls, [&] {
                        if (args == 1) (void)Tree::unary(op, Tree(a));
                        else (void)Tree::binary(op, Tree(a), Tree(cexp ? expo : b)); });
                }
                // interval evaluation over every pair of sign classes of the two operands (an interval
                // operation branches on where its operands lie relative to 0, +-1 and infinity, and each
                // branch has its own way out)
                {
                    static const float IV[][2] = {{-3.0f, -0.5f}, {-1.0f, 2.0f}, {0.5f, 3.0f}, {0.0f, 2.0f}, {-2.0f, 0.0f},
                                                  {1.0f, 1.0f}, {0.0f, 0.0f}, {-0.5f, 0.5f}, {0.9f, 1.5f}, {-1.5f, -0.9f},
                                                  {-INFINITY, 1.0f}, {2.0f, INFINITY}, {-INFINITY, INFINITY}, {-1e30f, 1e30f}};
                    const int NIV = sizeof(IV) / sizeof(IV[0]);
                    for (int ia = 0; ia < NIV; ++ia) for (int ib = 0; ib < (args == 2 && !cexp ? NIV : 1); ++ib) {
                        char cls[64]; snprintf(cls, sizeof cls, "([%g,%g],[%g,%g])", IV[ia][0], IV[ia][1], IV[ib][0], IV[ib][1]);
                        Eigen::Vector3f lo(IV[ia][0], IV[ib][0], 0), hi(IV[ia][1], IV[ib][1], 1);
                        probe(base + ":interval" + cls, [&] { ev.eval(lo, hi); });
                        probe(base + ":intervalpush" + cls, [&] { ev.intervalAndPush(lo, hi); });
                    }
                }
            }
        }
        // entry points
        Tree sphere = sqrt(Tree::X() * Tree::X() + Tree::Y() * Tree::Y() + Tree::Z() * Tree::Z()) - 0.7;
        Tree weird = max(sphere, nth_root(Tree::X() - 0.2, Tree(3.0f))) ;
        for (auto& pr : std::vector<std::pair<std::string, Tree>>{{"sphere", sphere}, {"weird", weird}}) {
            const Tree& t = pr.second;
            probe("optimized:" + pr.first, [&] { (void)t.optimized(); });
            probe("print:" + pr.first, [&] { std::stringstream ss; ss << t; });
            probe("serialize:" + pr.first, [&] { std::stringstream ss; t.serialize(ss); (void)Tree::deserialize(ss); });
            probe("capi_eval_f:" + pr.first, [&] { libfive_tree_eval_f(t.get(), {0.1f, -0.5f, 0.2f}); });
            probe("capi_eval_r:" + pr.first, [&] { libfive_tree_eval_r(t.get(), {{-1, 1}, {-1, 1}, {-1, 1}}); });
            probe("capi_eval_d:" + pr.first, [&] { libfive_tree_eval_d(t.get(), {0.1f, -0.5f, 0.2f}); });
            probe("heightmap:" + pr.first, [&] {
                std::atomic_bool abort(false);
                Voxels vox({-1, -1, -1}, {1, 1, 1}, 8.0f);
                (void)Heightmap::render(t, vox, abort, 2); });
            probe("mesh_dc:" + pr.first, [&] {
                BRepSettings s; s.min_feature = 0.25; s.workers = 2; s.alg = DUAL_CONTOURING;
                (void)Mesh::render(t, Region<3>({-1, -1, -1}, {1, 1, 1}), s); });
            if (!quick || pr.first == "sphere") {
                probe("mesh_simplex:" + pr.first, [&] {
                    BRepSettings s; s.min_feature = 0.4; s.workers = 2; s.alg = ISO_SIMPLEX;
                    (void)Mesh::render(t, Region<3>({-1, -1, -1}, {1, 1, 1}), s); });
                probe("mesh_hybrid:" + pr.first, [&] {
                    BRepSettings s; s.min_feature = 0.4; s.workers = 2; s.alg = HYBRID;
                    (void)Mesh::render(t, Region<3>({-1, -1, -1}, {1, 1, 1}), s); });
            }
            probe("contours:" + pr.first, [&] {
                BRepSettings s; s.min_feature = 0.2; s.workers = 2;
                (void)Contours::render(t, Region<2>({-1, -1}, {1, 1}), s); });
        }
        probe("solver", [&] {
            auto v = Tree::var();
            Tree f = (v * v - 2) + Tree::X();
            std::map<Tree::Id, float> vars = {{v.id(), 1.0f}};
            (void)Solver::findRoot(f, vars, {0.0f, 0, 0}); });
    }
    fesetround(FE_TONEAREST);
    std::cout << "T total=" << total << " bad=" << bad << "\n";
    return 0;
}
