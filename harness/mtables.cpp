// LIBS: core render
// Dumps the marching tables libfive builds at start-up (MarchingTable<2>, MarchingTable<3>):
//   E<N> a b idx      directed cell edge a -> b has index idx (-1: not an edge)
//   P<N> mask e patch the patch (vertex) serving directed edge e under corner mask (-1: none)
#include <cstdio>
#include "libfive/render/brep/dc/marching.hpp"
using namespace libfive;
template <unsigned N> static void dump() {
    const unsigned nv = 1u << N;
    for (unsigned a = 0; a < nv; ++a)
        for (unsigned b = 0; b < nv; ++b)
            std::printf("E%u %u %u %d\n", N, a, b, MarchingTable<N>::e(a)[b]);
    const unsigned ne = (N == 2 ? 4 : 12) * 2;
    for (unsigned m = 0; m < (1u << nv); ++m)
        for (unsigned e = 0; e < ne; ++e)
            std::printf("P%u %u %u %d\n", N, m, e, MarchingTable<N>::p(m)[e]);
}
int main() { dump<2>(); dump<3>(); return 0; }
