// LIBS: core render
// C19 harness: QEF<N> (header-only) on generated sample sets and boxes, N = 1, 2, 3.
// Prints every constrained candidate (solveConstrained<i>), the unconstrained solution,
// the result of solveBounded, and the property oracle.
#include <cstdio>
#include <cstring>
#include <cmath>
#include <iostream>
#include <sstream>
#include <vector>
#include <string>
#include <algorithm>
#include <utility>

#include "libfive/render/brep/region.hpp"
#include "libfive/render/brep/indexes.hpp"
#include "libfive/render/brep/simplex/qef.hpp"

using namespace libfive;

static std::string hex64(double d) { uint64_t u; memcpy(&u, &d, 8); char b[24]; snprintf(b, sizeof b, "%016llx", (unsigned long long)u); return b; }
static double of_hex64(const std::string& s) { uint64_t u = strtoull(s.c_str(), nullptr, 16); double d; memcpy(&d, &u, 8); return d; }

template <unsigned N> struct Sample { Eigen::Matrix<double, 1, N> p, n; double v; };

template <unsigned N, unsigned I> struct Cands {
    static void run(const QEF<N>& q, const Region<N>& r, const Eigen::Matrix<double, 1, N>& tp, double tv,
                    const std::string& id) {
        auto s = q.template solveConstrained<I - 1>(r, tp, tv);
        std::ostringstream ss;
        ss << id << " C " << (I - 1);
        for (unsigned a = 0; a < N; ++a) ss << ' ' << hex64(s.position(a));
        ss << ' ' << hex64(s.error) << ' ' << hex64(s.value);
        std::cout << ss.str() << '\n';
        Cands<N, I - 1>::run(q, r, tp, tv, id);
    }
};
template <unsigned N> struct Cands<N, 0> {
    static void run(const QEF<N>&, const Region<N>&, const Eigen::Matrix<double, 1, N>&, double, const std::string&) {}
};

template <unsigned N> static void do_case(const std::string& id, std::vector<std::string>& t, size_t k) {
    int ns = std::stoi(t[k++]);
    std::vector<Sample<N>> ss(ns);
    for (auto& s : ss) {
        for (unsigned a = 0; a < N; ++a) s.p(a) = of_hex64(t[k++]);
        for (unsigned a = 0; a < N; ++a) s.n(a) = of_hex64(t[k++]);
        s.v = of_hex64(t[k++]);
    }
    typename Region<N>::Pt lo, hi;
    for (unsigned a = 0; a < N; ++a) lo(a) = of_hex64(t[k++]);
    for (unsigned a = 0; a < N; ++a) hi(a) = of_hex64(t[k++]);
    Region<N> region(lo, hi);
    QEF<N> q;
    for (auto& s : ss) q.insert(s.p, s.n, s.v);
    const double shrink = 1 - 1e-9;
    auto region_ = region.shrink(shrink);
    Eigen::Matrix<double, 1, N> tp = (region.lower + region.upper) / 2.0;
    double tv = ns ? q.averageDistanceValue() : 0.0;
    {   // shrunk bounds, for the model
        std::ostringstream rs; rs << id << " R";
        for (unsigned a = 0; a < N; ++a) rs << ' ' << hex64(region_.lower(a));
        for (unsigned a = 0; a < N; ++a) rs << ' ' << hex64(region_.upper(a));
        std::cout << rs.str() << '\n';
    }
    auto u = q.solve(tp, tv);
    bool ucont = region_.contains(u.position, 0);
    {
        std::ostringstream us; us << id << " U " << (ucont ? 1 : 0);
        for (unsigned a = 0; a < N; ++a) us << ' ' << hex64(u.position(a));
        us << ' ' << hex64(u.error);
        std::cout << us.str() << '\n';
    }
    constexpr unsigned P = N == 1 ? 3 : (N == 2 ? 9 : 27);
    Cands<N, P>::run(q, region_, tp, tv, id);
    auto b = q.solveBounded(region);
    {
        std::ostringstream bs; bs << id << " B";
        for (unsigned a = 0; a < N; ++a) bs << ' ' << hex64(b.position(a));
        bs << ' ' << hex64(b.error) << ' ' << hex64(b.value);
        std::cout << bs.str() << '\n';
    }
    // ---- property oracle ----
    double scale = 1.0;
    for (auto& s : ss) { double nn = s.n.array().isFinite().all() ? s.n.squaredNorm() : 0.0; scale = std::max(scale, nn * (s.p.squaredNorm() + 1) + s.v * s.v); }
    bool inbox = region.contains(b.position, 1e-9 * (region.upper - region.lower).matrix().norm());
    bool onface = true;
    for (unsigned a = 0; a < N; ++a)
        if (b.constrained(a) && !(b.position(a) == region_.lower(a) || b.position(a) == region_.upper(a))) onface = false;
    // the error is evaluated as x'AtAx - 2x'AtB + BtB: with the position far from the samples the three terms cancel, and
    // the rounding noise of the first is eps * sum |n|^2 * |x|^2 (a false alarm of the nearly-parallel family otherwise)
    double sumn2 = 0.0;
    for (auto& s : ss) if (s.n.array().isFinite().all()) sumn2 += s.n.squaredNorm();
    const double posn2 = b.position.array().isFinite().all() ? b.position.squaredNorm() : 0.0;
    bool nonneg = b.error >= -(1e-9 * scale + 16 * 2.220446049250313e-16 * sumn2 * posn2);
    double e2 = q.error(b.position, b.value);
    bool trueerr = std::fabs(e2 - b.error) <= 1e-9 * (scale + std::fabs(e2)) || (std::isnan(e2) && std::isnan(b.error));
    bool ukept = !ucont || ((u.position - b.position).norm() == 0 && hex64(u.error) == hex64(b.error));
    // permutation invariance
    QEF<N> q2;
    for (auto it = ss.rbegin(); it != ss.rend(); ++it) q2.insert(it->p, it->n, it->v);
    // accumulation is order-independent up to rounding: the two QEFs agree as functions
    // (the *solution* of a rank-deficient system may amplify rounding through the eigenvalue
    //  cut-off, so it is the accumulated quadratic form that is compared)
    bool perm = true;
    for (int k = 0; k < 5; ++k) {
        Eigen::Matrix<double, N, 1> pr;
        for (unsigned a = 0; a < N; ++a) pr(a) = (k == 4) ? 0.5 * (lo(a) + hi(a)) : (((k >> a) & 1) ? hi(a) : lo(a));
        double e1 = q.error(pr, 0.25 * k), e3 = q2.error(pr, 0.25 * k);
        double sc = 1.0;
        for (auto& s : ss) { double nn = s.n.array().isFinite().all() ? s.n.squaredNorm() : 0.0; sc += nn * (pr.squaredNorm() + s.p.squaredNorm() + 1) + s.v * s.v + k; }
        if (!(std::fabs(e1 - e3) <= 1e-9 * sc) && !(std::isnan(e1) && std::isnan(e3))) perm = false;
    }
    bool finite = b.position.array().isFinite().all();
    std::cout << id << " O inbox=" << inbox << " onface=" << onface << " nonneg=" << nonneg << " trueerr=" << trueerr
              << " ukept=" << ukept << " perm=" << perm << " finite=" << finite << " ucont=" << ucont << '\n';
}

int main() {
    std::ios::sync_with_stdio(false);
    std::string line;
    while (std::getline(std::cin, line)) {
        std::istringstream ls(line);
        std::vector<std::string> t; std::string w;
        while (ls >> w) t.push_back(w);
        if (t.size() < 3) continue;
        int N = std::stoi(t[1]);
        if (N == 1) do_case<1>(t[0], t, 2);
        else if (N == 2) do_case<2>(t[0], t, 2);
        else do_case<3>(t[0], t, 2);
    }
    return 0;
}
