// LIBS: core render
// C13 harness: sequences of tree-building / transforming / printing / evaluating /
// deleting calls through the C API (release/reclaim boundary) and the C++ value
// type (copy, move, copy-assign, move-assign).  After each "check" it prints the
// reference count of every live handle's node and the number of live TreeData
// objects (LIBFIVE_VERIF hook) relative to the warmed-up baseline.
#include <cstdio>
#include <cstring>
#include <cmath>
#include <iostream>
#include <sstream>
#include <vector>
#include <string>
#include <cfenv>
#include <unistd.h>

#include "libfive.h"
#include "libfive/tree/tree.hpp"
#include "libfive/tree/data.hpp"
#include "libfive/eval/eval_array.hpp"

using namespace libfive;

static const char* OPNAMES[] = {
#define OPCODE(s, i) #s,
    OPCODES
#undef OPCODE
};
static Opcode::Opcode OPVALS[] = {
#define OPCODE(s, i) Opcode::s,
    OPCODES
#undef OPCODE
};
static int op_of_name(const std::string& s) {
    for (unsigned i = 0; i < sizeof(OPVALS) / sizeof(OPVALS[0]); ++i) if (s == OPNAMES[i]) return OPVALS[i];
    return 200;   // an invalid opcode number
}
static float of_hex32(const std::string& s) { uint32_t u = (uint32_t)strtoul(s.c_str(), nullptr, 16); float f; memcpy(&f, &u, 4); return f; }

static long live() { return TreeData::verif_live_nodes().load(); }

int main() {
    std::ios::sync_with_stdio(false);
    // warm up every function-local static singleton so that the baseline is stable
    {
        Tree t = (Tree::X() + Tree::Y() * 2 + Tree::Z() + 1).optimized();
        (void)Tree::invalid();
        std::stringstream ss; ss << t;
        ArrayEvaluator e(t); e.value({0, 0, 0});
    }
    const long base = live();
    std::vector<libfive_tree> H;     // nullptr = deleted / failed
    std::string case_id; int cmd = 0;
    std::string line;
    auto out = [&](const std::string& s) { std::cout << case_id << ' ' << cmd << ' ' << s << '\n'; };
    auto G = [&](const std::string& s) -> libfive_tree { return H.at(std::stoul(s)); };
    while (std::getline(std::cin, line)) {
        std::istringstream ls(line);
        std::vector<std::string> t; std::string w;
        while (ls >> w) t.push_back(w);
        if (t.empty()) continue;
        std::fesetround(FE_TONEAREST);
        if (t[0] == "case") { case_id = t[1]; cmd = 0; continue; }
        if (t[0] == "end") {
            ++cmd;
            for (auto& h : H) if (h) { libfive_tree_delete(h); h = nullptr; }
            H.clear();
            out("END live=" + std::to_string(live() - base));
            continue;
        }
        ++cmd;
        try {
            const std::string& c = t[0];
            if (c == "capi") { /* marker for the model: handle flags do not cross the C API */ }
            else if (c == "deepchain") {
                // deepchain N kind : N-node chain / fan destroyed on the current (small) stack
                long n = std::stol(t[1]); int kind = std::stoi(t[2]);
                libfive_tree x = libfive_tree_x();
                libfive_tree y = libfive_tree_y();
                libfive_tree v = libfive_tree_var();
                libfive_tree cur = libfive_tree_x();
                for (long i = 0; i < n; ++i) {
                    libfive_tree nxt;
                    if (kind == 0) nxt = libfive_tree_unary(Opcode::OP_SIN, cur);
                    else if (kind == 1) nxt = libfive_tree_binary(Opcode::OP_ADD, cur, x);
                    else if (kind == 2) nxt = libfive_tree_binary(Opcode::OP_MIN, x, cur);
                    else if (kind == 3) nxt = libfive_tree_remap(cur, cur, x, x);
                    else if (kind == 4) nxt = libfive_tree_remap(cur, y, x, x);      // chain through t only
                    else if (kind == 5) nxt = libfive_tree_remap(x, cur, x, y);      // chain through a coordinate only
                    else if (kind == 6) nxt = Tree(cur).apply(Tree(v), Tree(x)).release();   // chain through apply's t
                    else nxt = Tree(x).apply(Tree(v), Tree(cur)).release();          // chain through apply's value
                    libfive_tree_delete(cur);
                    cur = nxt;
                }
                long before = live() - base;
                libfive_tree_delete(cur);
                libfive_tree_delete(x);
                libfive_tree_delete(y);
                libfive_tree_delete(v);
                out("DEEP built=" + std::to_string(before) + " live=" + std::to_string(live() - base));
            }
            else if (c == "const") H.push_back(libfive_tree_const(of_hex32(t[1])));
            else if (c == "x") H.push_back(libfive_tree_x());
            else if (c == "y") H.push_back(libfive_tree_y());
            else if (c == "z") H.push_back(libfive_tree_z());
            else if (c == "var") H.push_back(libfive_tree_var());
            else if (c == "nullary") H.push_back(libfive_tree_nullary(op_of_name(t[1])));
            else if (c == "un") H.push_back(G(t[2]) ? libfive_tree_unary(op_of_name(t[1]), G(t[2])) : nullptr);
            else if (c == "bin") H.push_back((G(t[2]) && G(t[3])) ? libfive_tree_binary(op_of_name(t[1]), G(t[2]), G(t[3])) : nullptr);
            else if (c == "remap") H.push_back((G(t[1]) && G(t[2]) && G(t[3]) && G(t[4])) ? libfive_tree_remap(G(t[1]), G(t[2]), G(t[3]), G(t[4])) : nullptr);
            else if (c == "opt") H.push_back(G(t[1]) ? libfive_tree_optimized(G(t[1])) : nullptr);
            else if (c == "apply") {       // C++ only
                if (G(t[1]) && G(t[2]) && G(t[3])) {
                    try { H.push_back(Tree(G(t[1])).apply(Tree(G(t[2])), Tree(G(t[3]))).release()); }
                    catch (TreeData::ApplyException&) { H.push_back(nullptr); }
                } else H.push_back(nullptr);
            }
            else if (c == "flatten") H.push_back(G(t[1]) ? Tree(G(t[1])).flatten().release() : nullptr);
            else if (c == "copy") {        // copy-construct, copy-assign, move-construct, move-assign chains
                if (G(t[1])) {
                    Tree a(G(t[1]));       // +1
                    Tree b(a);             // copy ctor
                    Tree c2(std::move(b)); // move ctor
                    Tree d = Tree::invalid();
                    d = c2;                // copy assign
                    Tree e = Tree::invalid();
                    e = std::move(d);      // move assign
                    a = a;                 // self copy-assign
                    H.push_back(e.release());
                } else H.push_back(nullptr);
            }
            else if (c == "descend") {     // C++ only: a handle walks down to one of its node's children, t = t->child
                if (G(t[1])) {
                    size_t i = std::stoul(t[1]); int k = std::stoi(t[2]);
                    Tree a(H[i]);                       // +1
                    libfive_tree_delete(H[i]); H[i] = nullptr;   // `a` is now what the handle was (possibly the last owner)
                    const Tree* src = nullptr;
                    if (auto u = std::get_if<TreeUnaryOp>(a.get())) src = &u->lhs;
                    else if (auto b = std::get_if<TreeBinaryOp>(a.get())) src = (k % 2 == 0) ? &b->lhs : &b->rhs;
                    else if (auto r = std::get_if<TreeRemap>(a.get())) { const Tree* cs[4] = {&r->x, &r->y, &r->z, &r->t}; src = cs[k % 4]; }
                    else if (auto ap = std::get_if<TreeApply>(a.get())) { const Tree* cs[3] = {&ap->target, &ap->value, &ap->t}; src = cs[k % 3]; }
                    if (src) a = *src;                  // copy-assign from a reference into the expression `a` owns
                    H.push_back(a.release());
                } else H.push_back(nullptr);
            }
            else if (c == "print") { if (G(t[1])) { char* s = libfive_tree_print(G(t[1])); out(std::string("P len=") + std::to_string(strlen(s))); free(s); } }
            else if (c == "eval") { if (G(t[1])) { float v = libfive_tree_eval_f(G(t[1]), {0.5f, -0.25f, 1.0f}); (void)v; } }
            else if (c == "saveload") {
                if (G(t[1])) {
                    std::string fn = "/tmp/lfverif_" + std::to_string(getpid()) + ".frep";
                    bool ok = libfive_tree_save(G(t[1]), fn.c_str());
                    libfive_tree l = ok ? libfive_tree_load(fn.c_str()) : nullptr;
                    unlink(fn.c_str());
                    H.push_back(l);
                } else H.push_back(nullptr);
            }
            else if (c == "delete") { size_t i = std::stoul(t[1]); if (H.at(i)) { libfive_tree_delete(H[i]); H[i] = nullptr; } }
            else if (c == "check") {
                std::ostringstream ss;
                ss << "R";
                for (auto h : H) { if (h) ss << ' ' << h->refcount.load(); else ss << " -"; }
                ss << " L " << (live() - base);
                out(ss.str());
            }
            else out("ERR unknown command " + c);
        } catch (std::exception& e) {
            out(std::string("ERR ") + e.what());
        }
    }
    return 0;
}
