// LIBS: core render
// Harness for the expression core: executes build programs (the same case
// files ocaml/driver.ml reads) against libfive built from /repo's working
// tree and prints one answer line per query in the driver's grammar.
#include <cstdio>
#include <algorithm>
#include <cstring>
#include <cmath>
#include <iostream>
#include <sstream>
#include <map>
#include <unordered_map>
#include <vector>
#include <string>
#include <functional>
#include <cfenv>
#include <random>

#include "libfive.h"
#include "libfive/tree/tree.hpp"
#include "libfive/tree/deserializer.hpp"
#include "libfive/tree/serializer.hpp"
#include <set>
#include "libfive/tree/data.hpp"
#include "libfive/tree/opcode.hpp"
#include "libfive/tree/archive.hpp"
#include "libfive/solve/solver.hpp"
#include "libfive/eval/evaluator.hpp"
#include "libfive/render/discrete/heightmap.hpp"
#include "libfive/render/discrete/voxels.hpp"
#include "libfive/eval/eval_jacobian.hpp"
#include "libfive/eval/deck.hpp"
#include "libfive/eval/tape.hpp"
#include "libfive/eval/eval_array.hpp"
#include "libfive/eval/eval_interval.hpp"
#include "libfive/oracle/oracle_clause.hpp"
#include "libfive/render/brep/region.hpp"
#include "libfive/render/brep/mesh.hpp"
#include "libfive/render/brep/settings.hpp"
#include "libfive/render/brep/progress.hpp"
#include "libfive/render/brep/dual.hpp"
#include "libfive/render/brep/contours.hpp"
#include "libfive/render/brep/vol/vol_worker_pool.hpp"
#include "libfive/render/brep/brep.hpp"
#include "libfive/render/brep/dc/dc_worker_pool.hpp"
#include "libfive/render/brep/dc/dc_mesher.hpp"
#include "libfive/render/brep/simplex/simplex_worker_pool.hpp"
#include "libfive/render/brep/simplex/simplex_mesher.hpp"
#include "libfive/render/brep/hybrid/hybrid_worker_pool.hpp"
#include "libfive/render/brep/hybrid/hybrid_mesher.hpp"
#include "libfive_stdlib.h"
#include "stdlib_impl.hpp"
#include <stdexcept>

using namespace libfive;
#include "gen_stdlib_dispatch.inc"

static const char* OPNAMES[] = {
#define OPCODE(s, i) #s,
    OPCODES
#undef OPCODE
};
static Opcode::Opcode OPVALS[] = {
#define OPCODE(s, i) Opcode::s,
    OPCODES
#undef OPCODE
};
static const int NOPS = sizeof(OPVALS) / sizeof(OPVALS[0]);

static std::string opname(Opcode::Opcode op) {
    for (int i = 0; i < NOPS; ++i) if (OPVALS[i] == op) return OPNAMES[i];
    return "UNKNOWN";
}
static Opcode::Opcode op_of_name(const std::string& s) {
    for (int i = 0; i < NOPS; ++i) if (s == OPNAMES[i]) return OPVALS[i];
    return Opcode::INVALID;
}
static std::string hex32(float f) {
    uint32_t u; memcpy(&u, &f, 4); char b[16]; snprintf(b, sizeof b, "%08x", u); return b;
}
static float of_hex32(const std::string& s) {
    uint32_t u = (uint32_t)strtoul(s.c_str(), nullptr, 16); float f; memcpy(&f, &u, 4); return f;
}


// ---------------------------------------------------------------------------
// C16: an oracle that wraps a libfive expression (every interface method is
// answered by a private Evaluator of that expression)
#include "libfive/oracle/oracle_storage.hpp"
#include "libfive/render/brep/dc/dc_contourer.hpp"
#include "libfive/render/brep/dc/dc_tree.hpp"
// C10 (adaptive quadtrees): the contourer itself, with an Output that keeps the raw directed segments
// (vertex index pairs as DCContourer::load pushed them) instead of welding them
struct RawSegs {
    std::vector<std::pair<uint32_t, uint32_t>> segs;
    void collect(const std::vector<libfive::PerThreadBRep<2>>& breps) {
        for (auto& b : breps) for (auto& s : b.branes) segs.push_back({s(0), s(1)});
    }
};
class RawContourer : public libfive::DCContourer {
public:
    using Output = RawSegs;
    RawContourer(libfive::PerThreadBRep<2>& m) : libfive::DCContourer(m) {}
};
static void dump_otree(const libfive::DCTree<3>* t, std::ostringstream& o) {
    if (t->isBranch()) {
        o << " B";
        for (unsigned i = 0; i < 8; ++i) dump_otree(t->children[i].load(), o);
    } else if (t->type == libfive::Interval::EMPTY) o << " E";
    else if (t->type == libfive::Interval::FILLED) o << " F";
    else if (t->type == libfive::Interval::AMBIGUOUS && t->leaf != nullptr) {
        o << " A," << t->leaf->level << "," << (int)t->leaf->corner_mask << "," << (t->leaf->manifold ? 1 : 0)
          << "," << t->leaf->vertex_count;
        for (unsigned i = 0; i < 4; ++i) o << "," << t->leaf->index[i];
    } else o << " U";
}
static void dump_qtree(const libfive::DCTree<2>* t, std::ostringstream& o) {
    if (t->isBranch()) {
        o << " B";
        for (unsigned i = 0; i < 4; ++i) dump_qtree(t->children[i].load(), o);
    } else if (t->type == libfive::Interval::EMPTY) o << " E";
    else if (t->type == libfive::Interval::FILLED) o << " F";
    else if (t->type == libfive::Interval::AMBIGUOUS && t->leaf != nullptr) {
        o << " A," << t->leaf->level << "," << (int)t->leaf->corner_mask << "," << (t->leaf->manifold ? 1 : 0)
          << "," << t->leaf->vertex_count << "," << t->leaf->index[0] << "," << t->leaf->index[1];
    } else o << " U";   // ambiguous without a leaf / unknown: not expected after build
}
#include "libfive/eval/evaluator.hpp"
struct ExprOracleContext : public OracleContext {
    std::shared_ptr<Tape> tape;
    bool isTerminal() override { return tape ? tape->isTerminal() : false; }
};
class ExprOracle : public OracleStorage<> {
public:
    explicit ExprOracle(const Tree& e) : ev(e) {}
    std::shared_ptr<Tape> tp() {
        auto c = dynamic_cast<ExprOracleContext*>(context.get());
        return (c && c->tape) ? c->tape : ev.getDeck()->tape;
    }
    void evalInterval(Interval& out) override {
        last_base = tp();
        out = ev.eval(lower, upper, last_base);
    }
    std::shared_ptr<OracleContext> push(Tape::Type t) override {
        if (t != Tape::INTERVAL) return nullptr;
        auto c = std::make_shared<ExprOracleContext>();
        c->tape = ev.push(last_base ? last_base : tp());
        return c;
    }
    void evalPoint(float& out, size_t index = 0) override {
        out = ev.value(points.col(index), *tp());
    }
    void evalArray(Eigen::Block<Eigen::Array<float, Eigen::Dynamic, LIBFIVE_EVAL_ARRAY_SIZE, Eigen::RowMajor>,
                                1, Eigen::Dynamic> out) override {
        const unsigned n = out.cols();
        for (unsigned i = 0; i < n; ++i) ev.set(points.col(i), i);
        out = ev.values(n, *tp());
        last_n = n;
    }
    void checkAmbiguous(Eigen::Block<Eigen::Array<bool, 1, LIBFIVE_EVAL_ARRAY_SIZE>, 1, Eigen::Dynamic> out) override {
        out = out || ev.getAmbiguous(out.cols(), *tp());
    }
    void evalDerivs(Eigen::Block<Eigen::Array<float, 3, Eigen::Dynamic>, 3, 1, true> out, size_t index = 0) override {
        out = ev.deriv(points.col(index), *tp()).template head<3>();
    }
    void evalDerivArray(Eigen::Block<Eigen::Array<float, 3, LIBFIVE_EVAL_ARRAY_SIZE>, 3, Eigen::Dynamic, true> out) override {
        const unsigned n = out.cols();
        for (unsigned i = 0; i < n; ++i) ev.set(points.col(i), i);
        out = ev.derivs(n, *tp()).template topRows<3>();
    }
    void evalFeatures(boost::container::small_vector<Feature, 4>& out) override {
        out.clear();
        for (auto& f : ev.features_(points.col(0), tp())) out.push_back(f);
    }
    ALIGNED_OPERATOR_NEW_AND_DELETE(ExprOracle)
private:
    Evaluator ev;
    std::shared_ptr<Tape> last_base;
    unsigned last_n = 0;
};
// the same oracle with only the pure-virtual part of the interface: batches, gradients and gradient batches go through
// the library's own default implementations (Oracle::evalArray, OracleStorage::evalDerivs, Oracle::evalDerivArray)
class ExprOracleMin : public ExprOracle {
public:
    explicit ExprOracleMin(const Tree& e) : ExprOracle(e) {}
    void evalArray(Eigen::Block<Eigen::Array<float, Eigen::Dynamic, LIBFIVE_EVAL_ARRAY_SIZE, Eigen::RowMajor>,
                                1, Eigen::Dynamic> out) override { Oracle::evalArray(out); }
    void evalDerivs(Eigen::Block<Eigen::Array<float, 3, Eigen::Dynamic>, 3, 1, true> out, size_t index = 0) override {
        OracleStorage<>::evalDerivs(out, index);
    }
    void evalDerivArray(Eigen::Block<Eigen::Array<float, 3, LIBFIVE_EVAL_ARRAY_SIZE>, 3, Eigen::Dynamic, true> out) override {
        Oracle::evalDerivArray(out);
    }
    void checkAmbiguous(Eigen::Block<Eigen::Array<bool, 1, LIBFIVE_EVAL_ARRAY_SIZE>, 1, Eigen::Dynamic> out) override {
        // ambiguity per stored point, from the feature count (the batch state of the private evaluator is not used here)
        for (unsigned i = 0; i < out.cols(); ++i) {
            auto keep = points.col(0).eval();
            points.col(0) = points.col(i);
            boost::container::small_vector<Feature, 4> fs;
            evalFeatures(fs);
            points.col(0) = keep;
            if (fs.size() > 1) out(i) = true;
        }
    }
    ALIGNED_OPERATOR_NEW_AND_DELETE(ExprOracleMin)
};
class ExprOracleClause : public OracleClause {
public:
    // every other clause created by this process hands out the minimal oracle (library defaults for batches / gradients)
    // the wrapped expression is optimised ONCE: every oracle instance (one per worker) must lay out its private deck
    // identically, because oracle contexts - which hold tapes of that deck - travel between workers with the tapes of
    // the enclosing tree (Tree::optimized orders operands by address, so optimising per instance gives different decks)
    ExprOracleClause(const Tree& e_, int k) : e(e_.optimized()), k(k) { static int serial = 0; minimal = (serial++ % 2) == 1; }
    std::unique_ptr<Oracle> getOracle() const override {
        if (minimal) return std::make_unique<ExprOracleMin>(e);
        return std::make_unique<ExprOracle>(e);
    }
    bool minimal = false;
    std::string name() const override { return "ExprOracle" + std::to_string(k); }
    Tree e; int k;
};

// C08: a serialisable oracle (registered clause, no payload): the unit ball, answered by ExprOracle
class VerifBallClause : public OracleClause {
public:
    static Tree ball() {
        return sqrt(Tree::X() * Tree::X() + Tree::Y() * Tree::Y() + Tree::Z() * Tree::Z()) - Tree(1.0f);
    }
    std::unique_ptr<Oracle> getOracle() const override {
        static const Tree opt = ball().optimized();      // one deck layout for every instance (see ExprOracleClause)
        return std::make_unique<ExprOracle>(opt);
    }
    std::string name() const override { return "VerifBallClause"; }
    bool serialize(Serializer&) const { return true; }
    static std::unique_ptr<const OracleClause> deserialize(Deserializer&) {
        return std::unique_ptr<const OracleClause>(new VerifBallClause());
    }
};
REGISTER_ORACLE_CLAUSE(VerifBallClause)

// C20: a progress handler that records what it is told and exposes the protected phase table
struct RecHandler : public ProgressHandler {
    std::vector<double> vals; std::mutex m;
    void progress(double d) override { std::lock_guard<std::mutex> l(m); vals.push_back(d); }
    std::string phases_str() {
        std::string o;
        for (auto& p : phases) o += (o.empty() ? "" : ",") + std::to_string(p.total) + ":" + std::to_string(p.counter.load());
        return o.empty() ? "-" : o;
    }
    bool fut_valid() { return future.valid(); }
};

template <typename T> static void shape_str(const T* t, std::string& o) {
    if (T::isSingleton(t)) { o += 'S'; return; }
    if (t->isBranch()) { o += 'B'; for (auto& c : t->children) shape_str<T>(c.load(), o); }
    else o += 'L';
}

// C11: schedule-point hook (LIBFIVE_VERIF): raise cancel at the k-th visit of a named site
#include <chrono>
#include <thread>
static const char* SCHED_SITES[] = {"pool.loop", "pool.leaf", "pool.collect", "assign.loop", "dual.loop", "dual.work",
                                    "mesh.after_build", "mesh.after_assign", "mesh.after_walk"};
static const int N_SCHED_SITES = sizeof(SCHED_SITES) / sizeof(SCHED_SITES[0]);
static std::atomic<long> g_site_count[16];
static int g_cancel_site = -1; static long g_cancel_k = 0;
static const BRepSettings* g_cancel_settings = nullptr;
static std::atomic<int> g_cancel_fired(0);
static int g_cancel_linger_ms = 0;
static void sched_hook(const char* site, const BRepSettings* st) {
    for (int i = 0; i < N_SCHED_SITES; ++i) {
        if (strcmp(site, SCHED_SITES[i]) == 0) {
            long c = ++g_site_count[i];
            if (i == g_cancel_site && c == g_cancel_k) {
                const BRepSettings* tgt = st ? st : g_cancel_settings;
                if (tgt) { tgt->cancel.store(true); g_cancel_fired.store(1); }
                // optionally hold the thread that raised the flag in the middle of its iteration, so that the
                // other workers leave first (use-after-free of what they release shows up under AddressSanitizer)
                if (g_cancel_linger_ms > 0) std::this_thread::sleep_for(std::chrono::milliseconds(g_cancel_linger_ms));
            }
            return;
        }
    }
}
static bool mesh_closed(const Mesh& m) {
    std::map<std::pair<uint32_t, uint32_t>, int> edges;
    for (auto& t : m.branes) {
        for (int e = 0; e < 3; ++e) {
            uint32_t a = t(e), b = t((e + 1) % 3);
            if (a == b) return false;
            if (++edges[{a, b}] > 1) return false;
        }
    }
    for (auto& kv : edges) if (!edges.count({kv.first.second, kv.first.first})) return false;
    return !m.branes.empty();
}

// watertight and consistently oriented in the sense of Render/DCGrid.v's closed_mesh: every directed edge is
// used exactly as often as its reverse (dual contouring may use an edge twice in each direction where two
// patches of one cell meet, which mesh_closed - edge-manifoldness - rejects)
static bool mesh_balanced(const Mesh& m) {
    std::map<std::pair<uint32_t, uint32_t>, int> edges;
    for (auto& t : m.branes) {
        for (int e = 0; e < 3; ++e) {
            uint32_t a = t(e), b = t((e + 1) % 3);
            if (a == b) return false;
            ++edges[{a, b}];
        }
    }
    for (auto& kv : edges) {
        auto r = edges.find({kv.first.second, kv.first.first});
        if (r == edges.end() || r->second != kv.second) return false;
    }
    return !m.branes.empty();
}

// C03 / C04: combinatorial and geometric audit of a triangle mesh
struct MeshAudit {
    long tris = 0, verts = 0, degenerate = 0, bad_index = 0, unreferenced = 0, unbalanced_edges = 0, nonmanifold_edges = 0;
    long outside_region = 0; double max_field = 0; long wind_pts = 0, wind_bad = 0; std::string first_bad;
};
static const double MESH_ORIENT = 1.0;    // the sign every libfive mesher produces (normals from inside to outside)
static double solid_angle_sum(const Mesh& m, const Eigen::Vector3d& p) {
    double total = 0;
    for (auto& t : m.branes) {
        Eigen::Vector3d a = m.verts[t(0)].cast<double>() - p, b = m.verts[t(1)].cast<double>() - p, c = m.verts[t(2)].cast<double>() - p;
        double la = a.norm(), lb = b.norm(), lc = c.norm();
        double num = a.dot(b.cross(c));
        double den = la * lb * lc + a.dot(b) * lc + b.dot(c) * la + c.dot(a) * lb;
        total += 2.0 * std::atan2(num, den);
    }
    return total / (4.0 * M_PI);
}
static MeshAudit audit_mesh(const Mesh& m, Evaluator& ev, const Region<3>& rg, double minfeat, unsigned seed, int probes = 60) {
    MeshAudit a;
    a.tris = m.branes.size(); a.verts = m.verts.size();
    std::vector<char> used(m.verts.size(), 0);
    std::map<std::pair<uint32_t, uint32_t>, int> dir;
    for (auto& t : m.branes) {
        bool ok = true;
        for (int e = 0; e < 3; ++e) if (t(e) >= m.verts.size() || t(e) == 0) { ok = false; }
        if (!ok) { ++a.bad_index; continue; }
        if (t(0) == t(1) || t(1) == t(2) || t(0) == t(2)) ++a.degenerate;
        for (int e = 0; e < 3; ++e) { used[t(e)] = 1; ++dir[{t(e), t((e + 1) % 3)}]; }
    }
    for (size_t i = 1; i < used.size(); ++i) if (!used[i]) ++a.unreferenced;
    for (auto& kv : dir) {
        auto r = dir.find({kv.first.second, kv.first.first});
        int back = r == dir.end() ? 0 : r->second;
        if (kv.second != back) ++a.unbalanced_edges;
        if (kv.second > 1) ++a.nonmanifold_edges;
    }
    for (size_t i = 1; i < m.verts.size(); ++i) {
        Eigen::Vector3f v = m.verts[i];
        for (int k = 0; k < 3; ++k) if (v(k) < rg.lower(k) - 1e-4 || v(k) > rg.upper(k) + 1e-4) { ++a.outside_region; break; }
        if (used[i]) a.max_field = std::max(a.max_field, (double)std::fabs(ev.value(v)));
    }
    std::mt19937 rng(seed);
    std::uniform_real_distribution<double> d01(0.0, 1.0);
    for (int k = 0; k < probes; ++k) {
        Eigen::Vector3d p;
        for (int c = 0; c < 3; ++c) p(c) = rg.lower(c) + (rg.upper(c) - rg.lower(c)) * (0.04 + 0.92 * d01(rng));
        float f = ev.value(p.cast<float>());
        if (!(std::fabs(f) > 1.5 * minfeat)) continue;
        ++a.wind_pts;
        double w = solid_angle_sum(m, p);
        // C04_dc_orientation: triangles are wound so that normals point from the inside to the outside; with this
        // solid-angle formula an outward-oriented closed surface gives winding ORIENT at interior points
        double want = f < 0 ? MESH_ORIENT : 0.0;
        if (std::fabs(w - want) > 0.2) {
            if (!a.wind_bad) { std::ostringstream o; o << "p=(" << p.x() << "," << p.y() << "," << p.z() << ") f=" << f << " winding=" << w; a.first_bad = o.str(); }
            ++a.wind_bad;
        }
    }
    return a;
}

struct Ctx {
    std::vector<Tree> handles;
    std::vector<Tree> vars;
    int noracles = 0;
    int var_index(const TreeData* p) const {
        for (size_t i = 0; i < vars.size(); ++i) if (vars[i].id() == p) return (int)i;
        return -1;
    }
};

// canonical DAG dump: post-order numbering, children first (same as driver.ml)
static std::string dump_dag(const Ctx& cx, const Tree& root) {
    std::unordered_map<const TreeData*, int> num;
    std::string out; int next = 0;
    std::function<int(const TreeData*)> go = [&](const TreeData* p) -> int {
        auto it = num.find(p);
        if (it != num.end()) return it->second;
        std::string s;
        if (auto c = std::get_if<TreeConstant>(p)) {
            s = "c" + hex32(c->value);
        } else if (auto n = std::get_if<TreeNonaryOp>(p)) {
            if (n->op == Opcode::VAR_X) s = "X";
            else if (n->op == Opcode::VAR_Y) s = "Y";
            else if (n->op == Opcode::VAR_Z) s = "Z";
            else if (n->op == Opcode::VAR_FREE) s = "v" + std::to_string(cx.var_index(p));
            else s = "n." + opname(n->op);
        } else if (auto u = std::get_if<TreeUnaryOp>(p)) {
            int kx = go(u->lhs.get());
            s = "u." + opname(u->op) + "." + std::to_string(kx);
        } else if (auto b = std::get_if<TreeBinaryOp>(p)) {
            int kx = go(b->lhs.get()); int ky = go(b->rhs.get());
            s = "b." + opname(b->op) + "." + std::to_string(kx) + "." + std::to_string(ky);
        } else if (auto o = std::get_if<TreeOracle>(p)) {
            auto deps = o->oracle->dependencies();
            if (deps.size() == 4) {
                int ku = go(deps[0].get()); int kx = go(deps[1].get());
                int ky = go(deps[2].get()); int kz = go(deps[3].get());
                s = "T." + std::to_string(ku) + "." + std::to_string(kx) + "." +
                    std::to_string(ky) + "." + std::to_string(kz);
            } else if (auto eo = dynamic_cast<const ExprOracleClause*>(o->oracle.get())) {
                s = "o" + std::to_string(eo->k);
            } else {
                s = "o0";
            }
        } else if (auto r = std::get_if<TreeRemap>(p)) {
            int kx = go(r->x.get()); int ky = go(r->y.get());
            int kz = go(r->z.get()); int kt = go(r->t.get());
            s = "R." + std::to_string(kx) + "." + std::to_string(ky) + "." +
                std::to_string(kz) + "." + std::to_string(kt);
        } else if (auto a = std::get_if<TreeApply>(p)) {
            int kv = go(a->target.get()); int ke = go(a->value.get()); int kt = go(a->t.get());
            s = "A." + std::to_string(kv) + "." + std::to_string(ke) + "." + std::to_string(kt);
        } else {
            s = "I";
        }
        int k = next++; num[p] = k;
        if (!out.empty()) out += ' ';
        out += s;
        return k;
    };
    go(root.get());
    return out;
}

static std::string clause_str(const Clause& c) {
    return opname(c.op) + ":" + std::to_string(c.id) + ":" + std::to_string(c.a) + ":" + std::to_string(c.b);
}
static std::string tape_clauses(const Tape& t) {
    // root first, like Tape::t
    std::vector<std::string> v;
    for (auto itr = t.rbegin(); itr != t.rend(); ++itr) v.push_back(clause_str(*itr));
    std::string out;
    for (auto itr = v.rbegin(); itr != v.rend(); ++itr) { if (!out.empty()) out += ' '; out += *itr; }
    return out;
}
static size_t tape_len(const Tape& t) { return t.size(); }

static std::string dump_deck(const Ctx& cx, const Deck& d) {
    std::vector<std::string> cs, vs;
    for (auto& c : d.constants) cs.push_back(std::to_string(c.first) + "=" + hex32(c.second));
    for (auto& v : d.vars.left) vs.push_back(std::to_string(v.first) + "=v" + std::to_string(cx.var_index(static_cast<const TreeData*>(v.second))));
    std::sort(cs.begin(), cs.end()); std::sort(vs.begin(), vs.end());
    std::ostringstream ss;
    ss << "num=" << d.num_clauses << " root=" << d.tape->root() << " X=" << d.X << " Y=" << d.Y
       << " Z=" << d.Z << " tape=[" << tape_clauses(*d.tape) << "] consts=[";
    for (size_t i = 0; i < cs.size(); ++i) ss << (i ? " " : "") << cs[i];
    ss << "] vars=[";
    for (size_t i = 0; i < vs.size(); ++i) ss << (i ? " " : "") << vs[i];
    ss << "]";
    return ss.str();
}

namespace libfive { namespace Solver { extern void (*verif_trace)(int kind, const void* id, float value); } }
static std::vector<std::string> g_trace;
static const Ctx* g_ctx = nullptr;
static std::string g_grad;
static void solver_trace(int kind, const void* id, float value) {
    if (kind == 0) g_trace.push_back("V" + hex32(value));
    else if (kind == 1) { g_grad += (g_grad.empty() ? "" : ",") + std::to_string(g_ctx->var_index(static_cast<const TreeData*>(id))) + ":" + hex32(value); }
    else if (kind == 2) { g_trace.push_back("G" + g_grad); g_grad.clear(); }
    else if (kind == 3) g_trace.push_back("S" + std::to_string(g_ctx->var_index(static_cast<const TreeData*>(id))) + ":" + hex32(value));
}

struct IvEval : public IntervalEvaluator {
    IvEval(std::shared_ptr<Deck> d)
        : BaseEvaluator(d, std::map<Tree::Id, float>()), IntervalEvaluator(d) {}
    const Interval& slot(size_t k) const { return i[k]; }
    size_t nslots() const { return i.size(); }
};
struct ArEval : public ArrayEvaluator {
    ArEval(std::shared_ptr<Deck> d)
        : BaseEvaluator(d, std::map<Tree::Id, float>()), ArrayEvaluator(d) {}
    float slot(size_t k) const { return v(k, 0); }
    size_t nslots() const { return v.rows(); }
};

int main(int argc, char** argv) {
    std::ios::sync_with_stdio(false);
    Ctx cx; std::string case_id; int cmd = 0;
    std::string line;
    auto out = [&](const std::string& s) { std::cout << case_id << ' ' << cmd << ' ' << s << '\n'; };
    while (std::getline(std::cin, line)) {
        std::istringstream ls(line);
        std::vector<std::string> t; std::string w;
        while (ls >> w) t.push_back(w);
        if (t.empty()) continue;
        std::fesetround(FE_TONEAREST);   // a leaked rounding mode (C12) must not disturb this harness
        if (t[0] == "case") { case_id = t[1]; cmd = 0; cx.handles.clear(); cx.vars.clear(); cx.noracles = 0; continue; }
        if (t[0] == "end") { cx.handles.clear(); cx.vars.clear(); continue; }
        ++cmd;
        auto H = [&](const std::string& s) -> Tree& { return cx.handles.at(std::stoul(s)); };
        try {
            const std::string& c = t[0];
            if (c == "const") cx.handles.push_back(Tree(of_hex32(t[1])));
            else if (c == "x") cx.handles.push_back(Tree::nullary(Opcode::VAR_X));
            else if (c == "y") cx.handles.push_back(Tree::nullary(Opcode::VAR_Y));
            else if (c == "z") cx.handles.push_back(Tree::nullary(Opcode::VAR_Z));
            else if (c == "var") { auto v = Tree::var(); cx.vars.push_back(v); cx.handles.push_back(v); }
            else if (c == "un") cx.handles.push_back(Tree::unary(op_of_name(t[1]), H(t[2])));
            else if (c == "bin") cx.handles.push_back(Tree::binary(op_of_name(t[1]), H(t[2]), H(t[3])));
            else if (c == "oracle") {
                cx.handles.push_back(Tree(std::unique_ptr<const OracleClause>(new ExprOracleClause(H(t[1]), cx.noracles++))));
            }
            else if (c == "soracle") {
                cx.handles.push_back(Tree(std::unique_ptr<const OracleClause>(new VerifBallClause())));
            }
            else if (c == "std") {
                std::vector<Tree> a;
                for (size_t k = 2; k < t.size(); ++k) a.push_back(H(t[k]));
                cx.handles.push_back(std_dispatch(std::stoi(t[1]), a));
            }
            else if (c == "cstd") {
                std::vector<Tree> a;
                for (size_t k = 2; k < t.size(); ++k) a.push_back(H(t[k]));
                cx.handles.push_back(std_dispatch_c(std::stoi(t[1]), a));
            }
            else if (c == "remap") cx.handles.push_back(H(t[1]).remap(H(t[2]), H(t[3]), H(t[4])));
            else if (c == "apply") {
                try { cx.handles.push_back(H(t[1]).apply(H(t[2]), H(t[3]))); }
                catch (TreeData::ApplyException&) { cx.handles.push_back(Tree::invalid()); out("EXC"); }
            }
            else if (c == "flatten") cx.handles.push_back(H(t[1]).flatten());
            else if (c == "opt") cx.handles.push_back(H(t[1]).optimized());
            else if (c == "dump") out("D " + dump_dag(cx, H(t[1])));
            else if (c == "eq") out(H(t[1]).eq(H(t[2])) ? "EQ 1" : "EQ 0");
            else if (c == "deck") {
                Tree od = H(t[1]).optimized();
                Deck d(od);
                out("K " + dump_deck(cx, d));
                out("OD " + dump_dag(cx, od));
            }
            else if (c == "eval") {
                std::map<Tree::Id, float> vars;
                for (size_t k = 0; k < cx.vars.size(); ++k)
                    vars[cx.vars[k].id()] = (5 + k < t.size()) ? of_hex32(t[5 + k]) : 0.0f;
                Eigen::Vector3f p(of_hex32(t[2]), of_hex32(t[3]), of_hex32(t[4]));
                // one deck for every evaluator of this command: each Deck optimises the tree again, and the
                // optimiser's operand order follows heap addresses, so two decks may differ by an ulp
                auto shared_deck = std::make_shared<Deck>(H(t[1]));
                ArrayEvaluator e(shared_deck, vars);
                float v = e.value(p);
                // the same point in every slot position of a few batch sizes
                static const int sizes[] = {1, 2, 3, 15, 16, 17, 31, 33, 255, 256};
                int bad = 0; std::string badinfo;
                for (int n : sizes) {
                    for (int slot : {0, n / 2, n - 1}) {
                        for (int k = 0; k < n; ++k)
                            e.set(Eigen::Vector3f(1.5f * k - 3, 0.25f * k, -0.5f * k + 1), k);
                        e.set(p, slot);
                        float w = e.values(n)(slot);
                        if (memcmp(&w, &v, 4) != 0 && !(std::isnan(w) && std::isnan(v))) {
                            if (!bad) badinfo = " n=" + std::to_string(n) + " slot=" + std::to_string(slot) + " got=" + hex32(w);
                            ++bad;
                        }
                    }
                }
                // variable assignments reach every slot: an evaluator that was built with OTHER values, evaluated a
                // small batch, and was then given the assignment through setVar must answer like the fresh one in
                // every slot of a LARGER batch (the rows of free variables are per-slot state)
                if (!cx.vars.empty()) {
                    std::map<Tree::Id, float> other;
                    int kk = 0;
                    for (auto& kv : vars) other[kv.first] = kv.second + 3.25f + 0.5f * (kk++);
                    static const int firsts[] = {1, 3, 16, 17, 40};
                    static const int seconds[] = {2, 18, 33, 64, 256};
                    for (int n1 : firsts) for (int n2 : seconds) {
                        if (n2 <= n1) continue;
                        ArrayEvaluator e2(shared_deck, other);
                        for (int k = 0; k < n1; ++k) e2.set(Eigen::Vector3f(0.5f * k - 1, 0.75f * k, -0.25f * k), k);
                        (void)e2.values(n1);
                        for (auto& kv : vars) e2.setVar(kv.first, kv.second);
                        for (int slot : {0, n1, n2 / 2, n2 - 1}) {
                            if (slot >= n2) continue;
                            for (int k = 0; k < n2; ++k)
                                e2.set(Eigen::Vector3f(1.5f * k - 3, 0.25f * k, -0.5f * k + 1), k);
                            e2.set(p, slot);
                            float w = e2.values(n2)(slot);
                            if (memcmp(&w, &v, 4) != 0 && !(std::isnan(w) && std::isnan(v))) {
                                if (!bad) badinfo = " setvar-after-n1=" + std::to_string(n1) + " n=" + std::to_string(n2) + " slot=" + std::to_string(slot) + " got=" + hex32(w);
                                ++bad;
                            }
                        }
                    }
                }
                out("V " + hex32(v) + " batchbad=" + std::to_string(bad) + badinfo);
            }
            else if (c == "pushseq") {
                // pushseq h nboxes (lx ly lz ux uy uz)*   boxes are nested by the generator
                Tree od = H(t[1]).optimized();
                auto deck = std::make_shared<Deck>(od);
                IvEval iv(deck);
                ArEval ar(deck);
                int nb = std::stoi(t[2]);
                Tape::Handle tape = deck->tape;
                std::vector<Tape::Handle> chain{tape};
                size_t nslots = deck->num_clauses + 1;
                Eigen::Vector3f lo, hi;
                for (int b = 0; b < nb; ++b) {
                    lo = Eigen::Vector3f(of_hex32(t[3 + 6 * b]), of_hex32(t[4 + 6 * b]), of_hex32(t[5 + 6 * b]));
                    hi = Eigen::Vector3f(of_hex32(t[6 + 6 * b]), of_hex32(t[7 + 6 * b]), of_hex32(t[8 + 6 * b]));
                    iv.eval(lo, hi, tape);
                    std::ostringstream pi;
                    pi << "PI " << nslots << ' ' << tape->root() << ' ' << (tape->isTerminal() ? 1 : 0)
                       << ' ' << tape_len(*tape) << ' ' << tape_clauses(*tape);
                    for (size_t k = 0; k < nslots; ++k)
                        pi << ' ' << hex32(iv.slot(k).lower()) << ' ' << hex32(iv.slot(k).upper()) << ' ' << (iv.slot(k).isSafe() ? 0 : 1);
                    out(pi.str());
                    auto next = iv.push(tape);
                    out("P root=" + std::to_string(next->root()) + " term=" + (next->isTerminal() ? "1" : "0")
                        + " tape=[" + tape_clauses(*next) + "]");
                    tape = next; chain.push_back(tape);
                    // property oracle: bit-identical values on the box
                    int pts = 0, bad = 0; std::string info;
                    for (int k = 0; k < 27; ++k) {
                        float fx = (k % 3) * 0.5f, fy = ((k / 3) % 3) * 0.5f, fz = (k / 9) * 0.5f;
                        Eigen::Vector3f p(lo.x() + fx * (hi.x() - lo.x()), lo.y() + fy * (hi.y() - lo.y()),
                                          lo.z() + fz * (hi.z() - lo.z()));
                        float v0 = ar.value(p, *deck->tape);
                        bool anynan = false;
                        for (size_t s = 0; s < nslots; ++s) if (std::isnan(ar.slot(s))) anynan = true;
                        if (anynan) continue;
                        ++pts;
                        float v1 = ar.value(p, *tape);
                        float v2 = ar.value(p, *tape->getBase(p));
                        if (memcmp(&v0, &v1, 4) != 0 || memcmp(&v0, &v2, 4) != 0) {
                            if (!bad) info = " p=" + hex32(p.x()) + "," + hex32(p.y()) + "," + hex32(p.z())
                                + " base=" + hex32(v0) + " pushed=" + hex32(v1) + " getBase=" + hex32(v2);
                            ++bad;
                        }
                    }
                    out("PV pts=" + std::to_string(pts) + " bad=" + std::to_string(bad) + info);
                }
                // Tape::getBase: a POINT-type tape on top, then queries anywhere in (and around) the root region
                {
                    std::vector<Tape::Handle> lv;            // innermost first, root excluded
                    std::vector<int> lvbox;                  // -1 = point level, else index of the box
                    Eigen::Vector3f lastlo, lasthi;
                    for (size_t k = 1; k < chain.size(); ++k)
                        if (chain[k] != chain[k - 1]) { lv.insert(lv.begin(), chain[k]); lvbox.insert(lvbox.begin(), (int)k - 1); }
                    auto boxof = [&](int b, Eigen::Vector3f& l, Eigen::Vector3f& h) {
                        l = Eigen::Vector3f(of_hex32(t[3 + 6 * b]), of_hex32(t[4 + 6 * b]), of_hex32(t[5 + 6 * b]));
                        h = Eigen::Vector3f(of_hex32(t[6 + 6 * b]), of_hex32(t[7 + 6 * b]), of_hex32(t[8 + 6 * b])); };
                    boxof(nb - 1, lastlo, lasthi);
                    Eigen::Vector3f mid = 0.5f * (lastlo + lasthi);
                    auto vp = ar.valueAndPush(mid, tape);
                    Tape::Handle top = vp.second;
                    if (top != tape) { lv.insert(lv.begin(), top); lvbox.insert(lvbox.begin(), -1); }
                    std::string gl = "GL " + std::to_string(lv.size());
                    for (size_t k = 0; k < lv.size(); ++k) {
                        if (lvbox[k] < 0) { gl += " P 0 0 0 0 0 0"; continue; }
                        Eigen::Vector3f l, h; boxof(lvbox[k], l, h);
                        gl += " I " + hex32(l.x()) + " " + hex32(l.y()) + " " + hex32(l.z()) + " " + hex32(h.x()) + " " + hex32(h.y()) + " " + hex32(h.z());
                    }
                    out(gl);
                    auto index_of = [&](const Tape::Handle& h) -> int {
                        for (size_t k = 0; k < lv.size(); ++k) if (lv[k] == h) return (int)k;
                        return (h == deck->tape) ? (int)lv.size() : -1; };
                    Eigen::Vector3f olo, ohi; boxof(0, olo, ohi);
                    Eigen::Vector3f ext = ohi - olo;
                    std::mt19937 rng(31337);
                    std::uniform_real_distribution<float> d01(0.0f, 1.0f);
                    std::string gp = "GP", gr = "GR";
                    int pts = 0, bad = 0; std::string info;
                    for (int k = 0; k < 60; ++k) {
                        Eigen::Vector3f p;
                        int b = k % nb;                       // aim at the faces of box b
                        Eigen::Vector3f bl, bh; boxof(b, bl, bh);
                        for (int a = 0; a < 3; ++a) {
                            float r = d01(rng);
                            if (k < 20) p(a) = olo(a) - 0.2f * ext(a) + 1.4f * ext(a) * r;            // anywhere around the root box
                            else {
                                p(a) = bl(a) + (bh(a) - bl(a)) * r;                                    // inside box b ...
                                if (a == (k / nb) % 3) {                                                // ... but beyond one face
                                    float e2 = (bh(a) - bl(a)) * (0.05f + d01(rng));
                                    p(a) = ((k / (3 * nb)) % 2) ? bh(a) + e2 : bl(a) - e2;
                                }
                            }
                        }
                        if (k % 7 == 3) p = (k % 2) ? bl : bh;                                        // exactly on a corner
                        Tape::Handle h = top->getBase(p);
                        gp += " " + hex32(p.x()) + "," + hex32(p.y()) + "," + hex32(p.z()) + ":" + std::to_string(index_of(h));
                        float v0 = ar.value(p, *deck->tape);
                        bool anynan = false;
                        for (size_t s2 = 0; s2 < nslots; ++s2) if (std::isnan(ar.slot(s2))) anynan = true;
                        if (anynan) continue;
                        ++pts;
                        float v1 = ar.value(p, *h);
                        if (memcmp(&v0, &v1, 4) != 0) {
                            if (!bad) info = " p=" + hex32(p.x()) + "," + hex32(p.y()) + "," + hex32(p.z()) + " base=" + hex32(v0) + " getBase=" + hex32(v1);
                            ++bad;
                        }
                    }
                    for (int k = 0; k < 24; ++k) {
                        int b = k % nb;
                        Eigen::Vector3f bl, bh; boxof(b, bl, bh);
                        Eigen::Vector3f ql, qh;
                        for (int a = 0; a < 3; ++a) {
                            float u = d01(rng), w = d01(rng);
                            float lo2 = bl(a) + (bh(a) - bl(a)) * std::min(u, w), hi2 = bl(a) + (bh(a) - bl(a)) * std::max(u, w);
                            if (k % 3 == 1 && a == (k / 3) % 3) hi2 = bh(a) + 0.3f * (bh(a) - bl(a));   // sticks out of box b
                            if (k % 3 == 2) { lo2 = bl(a); hi2 = bh(a); }                                // the box itself
                            ql(a) = lo2; qh(a) = hi2;
                        }
                        Region<3> rg(ql.cast<double>(), qh.cast<double>());
                        Tape::Handle h = top->getBase(rg);
                        gr += " " + hex32(ql.x()) + "," + hex32(ql.y()) + "," + hex32(ql.z()) + "," + hex32(qh.x()) + "," + hex32(qh.y()) + "," + hex32(qh.z())
                              + ":" + std::to_string(index_of(h));
                        for (int j = 0; j < 5; ++j) {
                            Eigen::Vector3f p(ql.x() + (qh.x() - ql.x()) * d01(rng), ql.y() + (qh.y() - ql.y()) * d01(rng), ql.z() + (qh.z() - ql.z()) * d01(rng));
                            float v0 = ar.value(p, *deck->tape);
                            bool anynan = false;
                            for (size_t s2 = 0; s2 < nslots; ++s2) if (std::isnan(ar.slot(s2))) anynan = true;
                            if (anynan) continue;
                            ++pts;
                            float v1 = ar.value(p, *h);
                            if (memcmp(&v0, &v1, 4) != 0) {
                                if (!bad) info = " region p=" + hex32(p.x()) + "," + hex32(p.y()) + "," + hex32(p.z()) + " base=" + hex32(v0) + " getBase=" + hex32(v1);
                                ++bad;
                            }
                        }
                    }
                    out(gp); out(gr);
                    out("GV pts=" + std::to_string(pts) + " bad=" + std::to_string(bad) + info);
                }
            }
            else if (c == "bigpush") {
                // bigpush nspheres seed : C05 at scale: a balanced union of many small spheres (a deck with far more
                // than 2^16 clause ids), specialised by box pushes, nested pushes and point pushes around some of the
                // spheres; every specialised tape must answer bit-identically to the base tape inside its region
                int ns = std::stoi(t[1]); unsigned seed = (unsigned)std::stoul(t[2]);
                std::mt19937 rng(seed);
                std::uniform_real_distribution<float> U(-40.0f, 40.0f);
                std::vector<Tree> level;
                std::vector<Eigen::Vector3f> centres;
                for (int i = 0; i < ns; ++i) {
                    Eigen::Vector3f cc(U(rng), U(rng), U(rng));
                    centres.push_back(cc);
                    Tree dx = Tree::X() - Tree(cc.x()), dy = Tree::Y() - Tree(cc.y()), dz = Tree::Z() - Tree(cc.z());
                    level.push_back(sqrt(dx * dx + dy * dy + dz * dz) - Tree(0.3f));
                }
                while (level.size() > 1) {
                    std::vector<Tree> next;
                    for (size_t i = 0; i + 1 < level.size(); i += 2) next.push_back(min(level[i], level[i + 1]));
                    if (level.size() & 1) next.push_back(level.back());
                    level.swap(next);
                }
                Evaluator ev(level[0]);
                auto base = ev.getDeck()->tape;
                long pts = 0, bad = 0; std::string info;
                for (int q = 0; q < 24; ++q) {
                    int idx = (q < 8) ? (ns - 1 - q * 7) : (int)(rng() % ns);      // late spheres have the highest clause ids
                    if (idx < 0) idx = 0;
                    Eigen::Vector3f cc = centres[idx];
                    Eigen::Vector3f lo = cc.array() - 0.5f, hi = cc.array() + 0.5f;
                    auto r1 = ev.intervalAndPush(lo, hi, base);
                    Eigen::Vector3f lo2 = cc.array() - 0.2f, hi2 = cc.array() + 0.2f;
                    auto r2 = ev.intervalAndPush(lo2, hi2, r1.second);
                    std::fesetround(FE_TONEAREST);
                    for (int k = 0; k < 9; ++k) {
                        Eigen::Vector3f p = cc + 0.19f * Eigen::Vector3f(((k & 1) ? 1.f : -1.f), ((k & 2) ? 1.f : -1.f), ((k & 4) ? 1.f : -1.f)) * (k == 8 ? 0.f : 1.f);
                        float vb = ev.value(p, *base), v1 = ev.value(p, *r1.second), v2 = ev.value(p, *r2.second);
                        auto vp = ev.valueAndPush(p, r1.second);
                        float v3 = ev.value(p, *vp.second);
                        pts += 4;
                        if (memcmp(&vb, &v1, 4) || memcmp(&vb, &v2, 4) || memcmp(&vb, &vp.first, 4) || memcmp(&vb, &v3, 4)) {
                            if (!bad) info = " first=sphere" + std::to_string(idx) + " base=" + hex32(vb) + " box=" + hex32(v1) + " nested=" + hex32(v2) + " point=" + hex32(v3);
                            ++bad;
                        }
                    }
                }
                out("BP clauses=" + std::to_string(ev.getDeck()->num_clauses) + " pts=" + std::to_string(pts) + " bad=" + std::to_string(bad) + info);
            }
            else if (c == "pushpt") {
                // pushpt h x y z : valueAndPush at a point
                Tree od = H(t[1]).optimized();
                auto deck = std::make_shared<Deck>(od);
                ArEval ar(deck);
                Eigen::Vector3f p(of_hex32(t[2]), of_hex32(t[3]), of_hex32(t[4]));
                float v0 = ar.value(p, *deck->tape);
                size_t nslots = deck->num_clauses + 1;
                std::ostringstream pi;
                pi << "PP " << nslots << ' ' << deck->tape->root() << " 0 " << tape_len(*deck->tape) << ' '
                   << tape_clauses(*deck->tape);
                bool anynan = false;
                for (size_t k = 0; k < nslots; ++k) { pi << ' ' << hex32(ar.slot(k)); if (std::isnan(ar.slot(k))) anynan = true; }
                out(pi.str());
                auto r = ar.valueAndPush(p);
                out("P root=" + std::to_string(r.second->root()) + " term=" + (r.second->isTerminal() ? "1" : "0")
                    + " tape=[" + tape_clauses(*r.second) + "]");
                float v1 = ar.value(p, *r.second);
                bool ok = anynan || (memcmp(&v0, &v1, 4) == 0 && memcmp(&v0, &r.first, 4) == 0);
                out(std::string("PV pts=1 bad=") + (ok ? "0" : "1") + (ok ? "" : (" base=" + hex32(v0) + " pushed=" + hex32(v1))));
            }
            else if (c == "archive") {
                // archive N (h name doc nv (varhandle name)*)*   strings as hex ("-" = empty)
                auto unhex = [](const std::string& h) {
                    std::string o; if (h == "-") return o;
                    for (size_t i = 0; i + 1 < h.size(); i += 2) o.push_back((char)strtoul(h.substr(i, 2).c_str(), nullptr, 16));
                    return o; };
                auto tohex = [](const std::string& b) {
                    if (b.empty()) return std::string("-");
                    std::string o; char buf[4];
                    for (unsigned char ch : b) { snprintf(buf, sizeof buf, "%02x", ch); o += buf; }
                    return o; };
                Archive a;
                size_t k = 2; int n = std::stoi(t[1]);
                std::vector<std::map<std::string, Tree::Id>> named(n);
                std::vector<Tree> roots;
                for (int i = 0; i < n; ++i) {
                    Tree tr = H(t[k]); std::string name = unhex(t[k + 1]), doc = unhex(t[k + 2]);
                    int nv = std::stoi(t[k + 3]); k += 4;
                    std::map<Tree::Id, std::string> vars;
                    std::string order;
                    for (int j = 0; j < nv; ++j) { Tree v = H(t[k]); vars[v.id()] = unhex(t[k + 1]); named[i][unhex(t[k + 1])] = v.id(); k += 2; }
                    // the serialiser walks the map in key (pointer) order: report it for the model
                    for (auto& kv : vars) { order += " " + std::to_string(cx.var_index(static_cast<const TreeData*>(kv.first))); }
                    out("VO" + order);
                    {   // property oracle: names of the saved variables that occur in the saved expression
                        std::vector<std::string> occ;
                        Tree fl = tr.flatten();
                        for (auto* nd : fl.walk())
                            if (auto nn = std::get_if<TreeNonaryOp>(nd))
                                if (nn->op == Opcode::VAR_FREE && vars.count(nd)) occ.push_back(tohex(vars[nd]));
                        std::sort(occ.begin(), occ.end());
                        std::string w;
                        for (auto& x : occ) w += (w.empty() ? "" : ",") + x;
                        out("VW " + (w.empty() ? std::string("-") : w));
                    }
                    a.addShape(tr, name, doc, vars);
                    roots.push_back(tr);
                }
                std::stringstream ss;
                a.serialize(ss);
                std::string bytes = ss.str();
                out("B " + tohex(bytes));
                std::stringstream in(bytes);
                Archive b = Archive::deserialize(in);
                out("N " + std::to_string(b.shapes.size()));
                int i = 0;
                for (auto& sh : b.shapes) {
                    std::vector<std::string> vn;
                    std::map<Tree::Id, float> vals_b;
                    std::map<std::string, float> byname;
                    float nextv = 0.5f;
                    for (auto& kv : sh.vars) { vn.push_back(tohex(kv.second)); byname[kv.second] = nextv; vals_b[kv.first] = nextv; nextv += 0.75f; }
                    std::sort(vn.begin(), vn.end());
                    std::string vs; for (auto& x : vn) vs += (vs.empty() ? "" : ",") + x;
                    // label reloaded variables by their names for the dump
                    Ctx cy; cy.vars.clear();
                    std::string d;
                    {
                        // vars in dump: index of the name in sorted order, -1 if unnamed
                        std::vector<std::pair<std::string, Tree::Id>> nm;
                        for (auto& kv : sh.vars) nm.push_back({kv.second, kv.first});
                        std::sort(nm.begin(), nm.end());
                        for (auto& x : nm) cy.vars.push_back(Tree(static_cast<const TreeData*>(x.second)));
                        d = dump_dag(cy, sh.tree);
                    }
                    out("S name=" + tohex(sh.name) + " doc=" + tohex(sh.doc) + " vars=" + (vs.empty() ? "-" : vs) + " dump=" + d);
                    // semantic comparison with the original shape (same index)
                    if (i < (int)roots.size()) {
                        std::map<Tree::Id, float> vals_a;
                        for (auto& kv : named[i]) if (byname.count(kv.first)) vals_a[kv.second] = byname[kv.first];
                        int bad = 0, pts = 0; std::string info;
                        try {
                            struct ArS : public ArrayEvaluator {
                                ArS(std::shared_ptr<Deck> d, const std::map<Tree::Id, float>& vs)
                                    : BaseEvaluator(d, vs), ArrayEvaluator(d, vs) {}
                                bool any_nan() const { for (long k = 0; k < v.rows(); ++k) if (std::isnan(v(k, 0))) return true; return false; }
                                bool any_big() const { for (long k = 0; k < v.rows(); ++k) if (!(std::fabs(v(k, 0)) <= 1e6f)) return true; return false; }
                            };
                            ArS ea(std::make_shared<Deck>(roots[i]), vals_a), eb(std::make_shared<Deck>(sh.tree), vals_b);
                            for (int q = 0; q < 6; ++q) {
                                Eigen::Vector3f p(0.37f * q - 1.0f, 0.81f - 0.29f * q, 0.13f * q * q - 0.5f);
                                float va = ea.value(p), vb = eb.value(p);
                                // min/max treat a NaN operand differently by position and the optimiser
                                // orders operands by address: points where ANY sub-expression is NaN are
                                // outside the domain (a finite result can still depend on the order)
                                if (std::isnan(va) || std::isnan(vb) || ea.any_nan() || eb.any_nan()) continue;
                                // conditioning: huge intermediates (sin(exp(..))) or a value that moves when the point
                                // moves by a few ulps cannot be compared between two association orders
                                if (ea.any_big() || eb.any_big()) continue;
                                {
                                    bool stable = true;
                                    for (float sgn : {1.0f, -1.0f}) {
                                        Eigen::Vector3f pq = p.array() * (1.0f + sgn * 4e-7f) + sgn * 4e-7f;
                                        float vq = ea.value(pq);
                                        if (!(std::fabs(vq - va) <= 0.25f * 1e-4f * (1 + std::fabs(va)))) stable = false;
                                    }
                                    ea.value(p);
                                    if (!stable) continue;
                                }
                                ++pts;
                                bool same = va == vb ||
                                            std::fabs(va - vb) <= 1e-4f * (1 + std::fabs(va));
                                if (!same) { if (!bad) info = " p#" + std::to_string(q) + " a=" + hex32(va) + " b=" + hex32(vb); ++bad; }
                            }
                        } catch (std::exception& e) { bad = 1; info = std::string(" exc=") + e.what(); }
                        out("E pts=" + std::to_string(pts) + " bad=" + std::to_string(bad) + info);
                    }
                    ++i;
                }
            }
            else if (c == "loadbytes") {
                // loadbytes <hex> : deserialise an archive given as bytes (a golden file written by the pinned version)
                std::string bytes;
                for (size_t i = 0; i + 1 < t[1].size(); i += 2) bytes.push_back((char)strtoul(t[1].substr(i, 2).c_str(), nullptr, 16));
                std::stringstream in(bytes);
                Archive b = Archive::deserialize(in);
                std::string o = "LB n=" + std::to_string(b.shapes.size());
                for (auto& sh : b.shapes) { Ctx cy; cy.vars.clear(); o += " dump=" + dump_dag(cy, sh.tree); }
                out(o);
            }
            else if (c == "solve") {
                // solve h gas px py pz nmask (maskvar)* (initial value per case variable, hex)*
                Tree tr = H(t[1]);
                unsigned gas = (unsigned)std::stoul(t[2]);
                Eigen::Vector3f pos(of_hex32(t[3]), of_hex32(t[4]), of_hex32(t[5]));
                int nm = std::stoi(t[6]);
                Solver::Mask mask;
                std::string ms;
                for (int k = 0; k < nm; ++k) { mask.insert(H(t[7 + k]).id()); }
                std::map<Tree::Id, float> vars;
                for (size_t k = 0; k < cx.vars.size(); ++k)
                    if (7 + nm + k < t.size()) vars[cx.vars[k].id()] = of_hex32(t[7 + nm + k]);
                g_trace.clear(); g_grad.clear(); g_ctx = &cx;
                Solver::verif_trace = solver_trace;
                // the overload taking an evaluator, so that the oracle below can use the same deck
                // (min / max treat a NaN operand differently by position; operand order is per deck)
                auto deckp = std::make_shared<Deck>(tr);
                Deck& deck = *deckp;
                // a long-lived evaluator: it holds other values for every variable (masked ones included)
                // than the ones this solve is given
                std::map<Tree::Id, float> stale;
                // (with a trailing "Z": a variable given +-0 is held as the zero of the OTHER sign, which compares equal)
                const bool zmode = t.back() == "Z";
                { int k = 0; for (auto& v : vars) { ++k; stale[v.first] = (zmode && v.second == 0.0f) ? -v.second : v.second + 7.25f * k; } }
                JacobianEvaluator je(deckp, stale);
                auto res = Solver::findRoot(je, deckp->tape, vars, pos, mask, gas);
                Solver::verif_trace = nullptr;
                std::ostringstream ss;
                ss << "SI " << gas << " K";
                for (auto& v : deck.vars.left) ss << ' ' << cx.var_index(static_cast<const TreeData*>(v.second));
                ss << " V";
                for (auto& v : vars) ss << ' ' << cx.var_index(static_cast<const TreeData*>(v.first)) << ':' << hex32(v.second);
                ss << " M";
                for (auto& m : mask) ss << ' ' << cx.var_index(static_cast<const TreeData*>(m));
                ss << " T";
                for (auto& e : g_trace) ss << ' ' << e;
                out(ss.str());
                std::ostringstream rs;
                rs << "SR r=" << hex32(res.first) << " vars=";
                bool first = true;
                for (auto& v : res.second) { rs << (first ? "" : ",") << cx.var_index(static_cast<const TreeData*>(v.first)) << ':' << hex32(v.second); first = false; }
                out(rs.str());
                // property oracle: residual is the expression at the returned assignment
                std::map<Tree::Id, float> fin = vars;
                for (auto& v : res.second) fin[v.first] = v.second;
                ArrayEvaluator chk(deckp, fin);
                float rr = chk.value(pos);
                bool same = (memcmp(&rr, &res.first, 4) == 0) || (std::isnan(rr) && std::isnan(res.first))
                            || std::fabs(rr - res.first) <= 1e-5f * (1 + std::fabs(rr));
                bool masked_ok = true, absent_ok = true;
                for (auto& m : mask) if (res.second.count(m)) masked_ok = false;
                for (auto& v : res.second) {
                    bool in_deck = deck.vars.right.find(v.first) != deck.vars.right.end();
                    // unchanged as a number: -0 - step * 0 may come back as +0, which is the same value
                    if (!in_deck && memcmp(&v.second, &vars[v.first], 4) != 0 && !(v.second == vars[v.first])) absent_ok = false;
                }
                {   // the same problem through the overload that takes the Tree (it builds its own deck and evaluator)
                    auto res2 = Solver::findRoot(tr, vars, pos, mask, gas);
                    std::map<Tree::Id, float> fin2 = vars;
                    for (auto& v : res2.second) fin2[v.first] = v.second;
                    auto deck2 = std::make_shared<Deck>(tr);
                    ArrayEvaluator chk2(deck2, fin2);
                    float r2 = chk2.value(pos);
                    // (a fresh deck may order min / max operands differently: NaN-valued points are not compared)
                    bool same2 = std::isnan(r2) || std::isnan(res2.first) || memcmp(&r2, &res2.first, 4) == 0
                                 || std::fabs(r2 - res2.first) <= 1e-4f * (1 + std::fabs(r2));
                    bool masked2 = true, absent2 = true;
                    for (auto& m : mask) if (res2.second.count(m)) masked2 = false;
                    for (auto& v : res2.second) {
                        bool in_deck = deck2->vars.right.find(v.first) != deck2->vars.right.end();
                        if (!in_deck && memcmp(&v.second, &vars[v.first], 4) != 0 && !(v.second == vars[v.first])) absent2 = false;
                    }
                    out(std::string("ST residual=") + (same2 ? "1" : "0") + " masked=" + (masked2 ? "1" : "0") + " absent=" + (absent2 ? "1" : "0")
                        + " returned=" + std::to_string(res2.second.size()));
                }
                out(std::string("SO residual=") + (same ? "1" : "0") + " recomputed=" + hex32(rr) + " masked=" + (masked_ok ? "1" : "0")
                    + " absent=" + (absent_ok ? "1" : "0") + " gradcalls=" + std::to_string(std::count_if(g_trace.begin(), g_trace.end(), [](const std::string& e) { return e[0] == 'G'; })));
            }
            else if (c == "vsplit") {
                // vsplit lx ly lz ux uy uz rx ry rz nsteps (mask side)* : grid construction and a chain of splits
                Eigen::Vector3f lo(of_hex32(t[1]), of_hex32(t[2]), of_hex32(t[3])), hi(of_hex32(t[4]), of_hex32(t[5]), of_hex32(t[6]));
                Eigen::Vector3f res(of_hex32(t[7]), of_hex32(t[8]), of_hex32(t[9]));
                Voxels vox(lo, hi, res);
                std::ostringstream gs;
                gs << "VG " << vox.pts[0].size() << ' ' << vox.pts[1].size() << ' ' << vox.pts[2].size();
                bool cover = true, mono = true, spacing = true;
                for (int a = 0; a < 3; ++a) {
                    if (!(vox.lower(a) <= lo(a) && vox.upper(a) >= hi(a))) cover = false;
                    for (size_t k = 0; k + 1 < vox.pts[a].size(); ++k) if (!(vox.pts[a][k] < vox.pts[a][k + 1])) mono = false;
                    for (size_t k = 0; k < vox.pts[a].size(); ++k) if (!(vox.pts[a][k] >= vox.lower(a) && vox.pts[a][k] <= vox.upper(a))) cover = false;
                    if (res(a) > 0) {
                        float want = 1.0f / res(a);
                        float got = (vox.upper(a) - vox.lower(a)) / vox.pts[a].size();
                        if (std::fabs(got - want) > 1e-4f * want) spacing = false;
                        // no more voxels than needed to cover the request
                        if (vox.pts[a].size() > 1 && (vox.pts[a].size() - 1) / res(a) >= (hi(a) - lo(a)) * (1 + 1e-5f) + 1e-6f) spacing = false;
                    }
                }
                gs << " cover=" << cover << " mono=" << mono << " spacing=" << spacing;
                out(gs.str());
                int n = std::stoi(t[10]);
                Voxels::View v = vox.view();
                for (int k = 0; k < n; ++k) {
                    int mask = std::stoi(t[11 + 2 * k]), side = std::stoi(t[12 + 2 * k]);
                    std::pair<Voxels::View, Voxels::View> pr = mask == 7 ? v.split<7>() : mask == 3 ? v.split<3>() : mask == 4 ? v.split<4>()
                        : mask == 1 ? v.split<1>() : mask == 2 ? v.split<2>() : mask == 5 ? v.split<5>() : v.split<6>();
                    auto show = [&](const Voxels::View& w) {
                        std::ostringstream ss;
                        ss << w.corner.x() << ',' << w.corner.y() << ',' << w.corner.z() << ',' << w.size.x() << ',' << w.size.y() << ',' << w.size.z();
                        return ss.str(); };
                    // bounds of each half must separate its voxel centres from the other half's
                    bool sep = true;
                    for (int a = 0; a < 3; ++a) {
                        for (int q = 0; q < 2; ++q) {
                            const Voxels::View& w = q ? pr.second : pr.first;
                            for (int m = 0; m < w.size(a); ++m)
                                if (!(w.pts(a)[m] >= w.lower(a) && w.pts(a)[m] <= w.upper(a))) sep = false;
                        }
                    }
                    out("VS " + show(pr.first) + " " + show(pr.second) + " sep=" + (sep ? "1" : "0"));
                    v = side ? pr.second : pr.first;
                    if (v.empty()) break;
                }
            }
            else if (c == "hmap") {
                // hmap h lx ly lz ux uy uz res  : render with 1, 3 and 8 workers, compare with a brute-force scan
                Tree tr = H(t[1]);
                Eigen::Vector3f lo(of_hex32(t[2]), of_hex32(t[3]), of_hex32(t[4])), hi(of_hex32(t[5]), of_hex32(t[6]), of_hex32(t[7]));
                float res = of_hex32(t[8]);
                Voxels vox(lo, hi, res);
                std::atomic_bool abort(false);
                const Tree topt = tr.optimized();
                // brute force with the renderer's own evaluator type and the same optimised tree
                Evaluator be(topt);
                size_t nx = vox.pts[0].size(), ny = vox.pts[1].size(), nz = vox.pts[2].size();
                std::vector<float> brute(nx * ny, -std::numeric_limits<float>::infinity());
                for (size_t i = 0; i < nx; ++i) for (size_t j = 0; j < ny; ++j)
                    for (size_t k = nz; k-- > 0;) {
                        float v = be.value({vox.pts[0][i], vox.pts[1][j], vox.pts[2][k]});
                        std::fesetround(FE_TONEAREST);
                        if (v < 0) { brute[j * nx + i] = vox.pts[2][k]; break; }
                    }
                size_t filled = 0; for (float d : brute) if (std::isfinite(d)) ++filled;
                std::string res_s = "HM " + std::to_string(nx) + "x" + std::to_string(ny) + "x" + std::to_string(nz) + " filled=" + std::to_string(filled);
                for (size_t workers : {1, 3, 8}) {
                    std::vector<Evaluator*> es;
                    for (size_t w = 0; w < workers; ++w) es.push_back(new Evaluator(topt));
                    auto hm = Heightmap::render(es, vox, abort);
                    for (auto e : es) delete e;
                    size_t bad = 0; std::string first;
                    for (size_t i = 0; i < nx; ++i) for (size_t j = 0; j < ny; ++j) {
                        float d = hm->depth(j, i), b = brute[j * nx + i];
                        if (!(d == b)) { if (!bad) first = " px=" + std::to_string(i) + "," + std::to_string(j) + " got=" + hex32(d) + " want=" + hex32(b); ++bad; }
                    }
                    res_s += " w" + std::to_string(workers) + "bad=" + std::to_string(bad) + first;
                }
                out(res_s);
            }
            else if (c == "history") {
                // history h nv (initial var values)* then queries, each "|" separated:
                //   V x y z | B n seed | D x y z | DS n seed | F x y z | I x y z | R lo3 hi3 | P lo3 hi3 p3 | VP x y z
                //   G x y z | SV k val | UV n (k val)* | A n seed | AD n seed
                Tree topt = H(t[1]).optimized();
                size_t nv = std::stoul(t[2]);
                std::map<Tree::Id, float> vars;
                for (size_t k = 0; k < cx.vars.size(); ++k) vars[cx.vars[k].id()] = k < nv ? of_hex32(t[3 + k]) : 0.0f;
                Evaluator E(std::make_shared<Deck>(topt), vars);
                size_t pos = 3 + nv;
                int qi = 0, nbad = 0; std::string firstbad;
                auto bits = [](float f) { uint32_t u; memcpy(&u, &f, 4); if (std::isnan(f)) u = 0x7fc00000; return u; };
                auto pt3 = [&](size_t at) { return Eigen::Vector3f(of_hex32(t[at]), of_hex32(t[at + 1]), of_hex32(t[at + 2])); };
                auto batchpt = [](unsigned seed, int k) {
                    unsigned s = seed * 2654435761u + k * 40503u;
                    auto f = [&]() { s = s * 1664525u + 1013904223u; return ((s >> 8) & 0xffff) / 16384.0f - 2.0f; };
                    float a = f(), b = f(), c2 = f(); return Eigen::Vector3f(a, b, c2); };
                while (pos < t.size()) {
                    if (t[pos] == "|") { ++pos; continue; }
                    std::string q = t[pos];
                    Evaluator Fr(std::make_shared<Deck>(topt), vars);   // fresh evaluator, same variable values
                    std::vector<uint32_t> a1, a2;
                    auto pushf = [&](std::vector<uint32_t>& o, float f) { o.push_back(bits(f)); };
                    auto run = [&](Evaluator& ev, std::vector<uint32_t>& o, bool live) {
                        if (q == "V") { pushf(o, ev.value(pt3(pos + 1))); }
                        else if (q == "B") { int n = std::stoi(t[pos + 1]); unsigned sd = std::stoul(t[pos + 2]);
                            for (int k = 0; k < n; ++k) ev.set(batchpt(sd, k), k);
                            auto r = ev.values(n); for (int k = 0; k < n; ++k) pushf(o, r(k)); }
                        else if (q == "D") { auto r = ev.deriv(pt3(pos + 1)); for (int k = 0; k < 4; ++k) pushf(o, r(k)); }
                        else if (q == "DS") { int n = std::stoi(t[pos + 1]); unsigned sd = std::stoul(t[pos + 2]);
                            for (int k = 0; k < n; ++k) ev.set(batchpt(sd, k), k);
                            auto r = ev.derivs(n); for (int k = 0; k < n; ++k) for (int j = 0; j < 4; ++j) pushf(o, r(j, k)); }
                        else if (q == "F") { auto fs = ev.features(pt3(pos + 1));
                            std::vector<std::array<uint32_t, 3>> l;
                            for (auto& f : fs) l.push_back({bits(f.x()), bits(f.y()), bits(f.z())});
                            std::sort(l.begin(), l.end());
                            for (auto& e : l) for (auto u : e) o.push_back(u); }
                        else if (q == "I") { o.push_back(ev.isInside(pt3(pos + 1)) ? 1 : 0); }
                        else if (q == "R") { auto r = ev.eval(pt3(pos + 1), pt3(pos + 4)); pushf(o, r.lower()); pushf(o, r.upper()); o.push_back(r.isSafe()); }
                        else if (q == "P") { auto r = ev.intervalAndPush(pt3(pos + 1), pt3(pos + 4));
                            pushf(o, r.first.lower()); pushf(o, r.first.upper()); o.push_back(r.first.isSafe());
                            pushf(o, ev.value(pt3(pos + 7), *r.second));
                            auto dd = ev.deriv(pt3(pos + 7), *r.second); for (int k = 0; k < 4; ++k) pushf(o, dd(k));
                            if (r.second != ev.getDeck()->tape) ev.getDeck()->claim(std::move(r.second)); }
                        else if (q == "VP") { auto r = ev.valueAndPush(pt3(pos + 1)); pushf(o, r.first);
                            pushf(o, ev.value(pt3(pos + 1), *r.second));
                            if (r.second != ev.getDeck()->tape) ev.getDeck()->claim(std::move(r.second)); }
                        else if (q == "G") { auto g = ev.gradient(pt3(pos + 1));
                            for (auto& v : cx.vars) { auto it = g.find(v.id()); if (it != g.end()) pushf(o, it->second); } }
                        else if (q == "A") { int n = std::stoi(t[pos + 1]); unsigned sd = std::stoul(t[pos + 2]);
                            for (int k = 0; k < n; ++k) ev.set(batchpt(sd, k), k);
                            ev.values(n); auto r = ev.getAmbiguous(n); for (int k = 0; k < n; ++k) o.push_back(r(k) ? 1 : 0); }
                        else if (q == "AD") { int n = std::stoi(t[pos + 1]); unsigned sd = std::stoul(t[pos + 2]);
                            for (int k = 0; k < n; ++k) ev.set(batchpt(sd, k), k);
                            ev.derivs(n); auto r = ev.getAmbiguousDerivs(n); for (int k = 0; k < n; ++k) o.push_back(r(k) ? 1 : 0); }
                        (void)live;
                    };
                    size_t adv = 1;
                    bool compare = true;
                    if (q == "SV") {   // single variable on both underlying evaluators
                        size_t k = std::stoul(t[pos + 1]); float val = of_hex32(t[pos + 2]);
                        if (k < cx.vars.size()) {
                            bool was = bits(vars[cx.vars[k].id()]) != bits(val) && !(vars[cx.vars[k].id()] == val);
                            std::map<Tree::Id, float> one = {{cx.vars[k].id(), val}};
                            bool changed = E.updateVars(one);
                            bool in_deck = E.getDeck()->vars.right.find(cx.vars[k].id()) != E.getDeck()->vars.right.end();
                            vars[cx.vars[k].id()] = val;
                            if (changed != (was && in_deck)) { ++nbad; if (firstbad.empty()) firstbad = " q" + std::to_string(qi) + ":updateVars flag"; }
                        }
                        adv = 3; compare = false;
                    } else if (q == "UV") {
                        size_t n = std::stoul(t[pos + 1]);
                        std::map<Tree::Id, float> upd; bool expect = false;
                        for (size_t j = 0; j < n; ++j) {
                            size_t k = std::stoul(t[pos + 2 + 2 * j]); float val = of_hex32(t[pos + 3 + 2 * j]);
                            if (k >= cx.vars.size()) continue;
                            upd[cx.vars[k].id()] = val;          // a std::map: the last value per key wins
                        }
                        for (auto& u : upd) {
                            bool in_deck = E.getDeck()->vars.right.find(u.first) != E.getDeck()->vars.right.end();
                            if (in_deck && !(vars[u.first] == u.second)) expect = true;
                            vars[u.first] = u.second;
                        }
                        bool changed = E.updateVars(upd);
                        if (changed != expect) { ++nbad; if (firstbad.empty()) firstbad = " q" + std::to_string(qi) + ":updateVars flag"; }
                        adv = 2 + 2 * n; compare = false;
                    } else {
                        run(E, a1, true); std::fesetround(FE_TONEAREST);
                        run(Fr, a2, false); std::fesetround(FE_TONEAREST);
                        adv = (q == "V" || q == "D" || q == "F" || q == "I" || q == "VP" || q == "G") ? 4
                              : (q == "R") ? 7 : (q == "P") ? 10 : 3;
                    }
                    if (compare && a1 != a2) {
                        ++nbad;
                        if (firstbad.empty()) {
                            firstbad = " q" + std::to_string(qi) + ":" + q + " long=";
                            for (size_t k = 0; k < a1.size() && k < 8; ++k) { char b[12]; snprintf(b, sizeof b, "%08x,", a1[k]); firstbad += b; }
                            firstbad += " fresh=";
                            for (size_t k = 0; k < a2.size() && k < 8; ++k) { char b[12]; snprintf(b, sizeof b, "%08x,", a2[k]); firstbad += b; }
                        }
                    }
                    pos += adv; ++qi;
                }
                out("HI queries=" + std::to_string(qi) + " bad=" + std::to_string(nbad) + firstbad);
            }
            else if (c == "deriv") {
                // deriv h x y z (var values)* : value+gradient single and batched, variable partials
                std::map<Tree::Id, float> vars;
                for (size_t k = 0; k < cx.vars.size(); ++k)
                    vars[cx.vars[k].id()] = (5 + k < t.size()) ? of_hex32(t[5 + k]) : 0.0f;
                Eigen::Vector3f p(of_hex32(t[2]), of_hex32(t[3]), of_hex32(t[4]));
                Evaluator e(H(t[1]), vars);
                Eigen::Vector4f d = e.deriv(p);
                // batched: the same point in several slots of several batch sizes
                int bad = 0;
                for (int n : {1, 3, 16, 17, 33, 256}) for (int slot : {0, n / 2, n - 1}) {
                    for (int k = 0; k < n; ++k) e.set(Eigen::Vector3f(0.3f * k - 1, 0.1f * k, 1 - 0.2f * k), k);
                    e.set(p, slot);
                    auto r = e.derivs(n);
                    for (int j = 0; j < 4; ++j) { float w = r(j, slot), v = d(j); if (memcmp(&w, &v, 4) != 0 && !(std::isnan(w) && std::isnan(v))) ++bad; }
                }
                auto g = e.gradient(p);
                std::string gs;
                for (size_t k = 0; k < cx.vars.size(); ++k) { auto it = g.find(cx.vars[k].id()); if (it != g.end()) gs += (gs.empty() ? "" : ",") + std::to_string(k) + ":" + hex32(it->second); }
                libfive_vec3 cd = libfive_tree_eval_d(H(t[1]).get(), {p.x(), p.y(), p.z()});
                // (a separately built evaluator; compared by the check at smooth points only)
                std::string capi_s = hex32(cd.x) + "," + hex32(cd.y) + "," + hex32(cd.z);
                out("DV " + hex32(d(3)) + " " + hex32(d(0)) + " " + hex32(d(1)) + " " + hex32(d(2)) + " batchbad=" + std::to_string(bad)
                    + " capi=" + capi_s + " vars " + gs);
            }
            else if (c == "feat") {
                // feat h x y z : features at a (possibly tied) point; each must be the gradient of a branch,
                // i.e. the smooth gradient at some nearby point; isInside consistency
                Tree tr = H(t[1]);
                std::map<Tree::Id, float> vars;
                for (size_t k = 0; k < cx.vars.size(); ++k) vars[cx.vars[k].id()] = 0.25f * (k + 1);
                Eigen::Vector3f p(of_hex32(t[2]), of_hex32(t[3]), of_hex32(t[4]));
                Evaluator e(tr, vars);
                {   // the evaluator is a long-lived one, as in the meshers: an earlier feature query and a batch of
                    // derivatives at other positions leave their values in the array slots
                    Eigen::Vector3f q0 = p.array() * 2.5f + Eigen::Array3f(3.0f, -2.0f, 1.0f);
                    (void)e.features(q0);
                    // ... and one on the diagonal through p, where ties of the same min / max clauses replicate
                    // several features (slot-replication state of the coordinate rows)
                    (void)e.features(p + Eigen::Vector3f(2.0f, 2.0f, 2.0f));
                    (void)e.features(p - Eigen::Vector3f(0.75f, 0.75f, 0.75f));
                    for (int k = 0; k < 8; ++k) e.set(q0 + Eigen::Vector3f(1.0f * k, 2.0f * k, -1.0f * k), k);
                    (void)e.derivs(8);
                    std::fesetround(FE_TONEAREST);
                }
                auto fs = e.features(p);
                float val = e.value(p);
                bool inside = e.isInside(p);
                std::mt19937 rng(4242);
                std::uniform_real_distribution<float> dist(-1.0f, 1.0f);
                std::vector<Eigen::Vector3f> nearby;
                for (float eps : {1e-3f, 3e-4f}) for (int k = 0; k < 60; ++k) {
                    Eigen::Vector3f q = p + eps * Eigen::Vector3f(dist(rng), dist(rng), dist(rng));
                    auto d = e.deriv(q);
                    nearby.push_back(d.head<3>());
                }
                int unmatched = 0; std::string info;
                for (auto& f : fs) {
                    bool ok = false;
                    for (auto& n : nearby) if ((n - f).norm() <= 2e-2f * (1 + f.norm())) { ok = true; break; }
                    if (!ok && !(f.array().isNaN().any())) { if (!unmatched) info = " f=" + hex32(f.x()) + "," + hex32(f.y()) + "," + hex32(f.z()); ++unmatched; }
                }
                bool inside_ok = (val == 0 || std::isnan(val)) ? true : (inside == (val < 0));
                out("FT n=" + std::to_string(fs.size()) + " unmatched=" + std::to_string(unmatched) + " inside_ok=" + (inside_ok ? "1" : "0")
                    + " val=" + hex32(val) + info);
            }
            else if (c == "oraclecmp") {
                // oraclecmp ho he nboxes (lx ly lz ux uy uz)* : C16, a tree containing oracle nodes next to the
                // equivalent plain tree.  Boxes are nested.  Gradients / features / interval soundness /
                // specialisation are compared here; values are compared by the caller against the model.
                Evaluator eo(H(t[1])), ee(H(t[2]));
                int nb = std::stoi(t[3]);
                auto tape = eo.getDeck()->tape;
                int pts = 0, gpts = 0, gbad = 0, fpts = 0, fbad = 0, fmiss = 0, ibad = 0, pbad = 0, ppts = 0, abad = 0, bpts = 0, bbad = 0, vskip = 0;
                std::string info;
                auto note = [&](const std::string& what, const Eigen::Vector3f& p) {
                    if (info.empty()) info = " first=" + what + "@" + hex32(p.x()) + "," + hex32(p.y()) + "," + hex32(p.z());
                };
                std::mt19937 rng(1234);
                std::uniform_real_distribution<float> d01(0.0f, 1.0f);
                for (int b = 0; b < nb; ++b) {
                    Eigen::Vector3f lo(of_hex32(t[4 + 6 * b]), of_hex32(t[5 + 6 * b]), of_hex32(t[6 + 6 * b]));
                    Eigen::Vector3f hi(of_hex32(t[7 + 6 * b]), of_hex32(t[8 + 6 * b]), of_hex32(t[9 + 6 * b]));
                    auto ro = eo.intervalAndPush(lo, hi, tape);
                    Interval io = ro.first;
                    Interval ie = ee.eval(lo, hi);
                    std::fesetround(FE_TONEAREST);
                    auto pushed = ro.second;
                    out(std::string("OI ") + hex32(io.lower()) + " " + hex32(io.upper()) + " " + (io.isSafe() ? "0" : "1") + " | "
                        + hex32(ie.lower()) + " " + hex32(ie.upper()) + " " + (ie.isSafe() ? "0" : "1")
                        + " pushed_len=" + std::to_string(tape_len(*pushed)) + " base_len=" + std::to_string(tape_len(*tape)));
                    // points 40..55 come from the OUTERMOST box: after an interval evaluation on this (smaller)
                    // box the evaluators must still answer correctly, on the base tape, for points outside it
                    const Eigen::Vector3f lo0(of_hex32(t[4]), of_hex32(t[5]), of_hex32(t[6]));
                    const Eigen::Vector3f hi0(of_hex32(t[7]), of_hex32(t[8]), of_hex32(t[9]));
                    for (int k = 0; k < (b == 0 ? 40 : 56); ++k) {
                        Eigen::Vector3f p;
                        const bool outer = k >= 40;
                        for (int a = 0; a < 3; ++a) {
                            float f = (k < 8) ? (((k >> a) & 1) ? 1.0f : 0.0f) : (k == 8 ? 0.5f : d01(rng));
                            if (outer) { p(a) = lo0(a) + f * (hi0(a) - lo0(a)); continue; }
                            p(a) = lo(a) + f * (hi(a) - lo(a));
                            if (k >= 9 && k < 20) {
                                static const float crit[] = {0.0f, 1.0f, -1.0f, 0.5f, -0.5f};
                                float cc = crit[(k + a) % 5];
                                if (cc >= lo(a) && cc <= hi(a) && ((k >> a) & 1)) p(a) = cc;
                            }
                            p(a) = std::min(std::max(p(a), lo(a)), hi(a));
                        }
                        ++pts;
                        float vo = eo.value(p), ve = ee.value(p);
                        std::fesetround(FE_TONEAREST);
                        // interval soundness of the oracle tree on its own values
                        float sl = 1e-4f * std::max(1.0f, std::max(std::fabs(io.lower()), std::fabs(io.upper())));
                        if (!outer && io.isSafe() && (std::isnan(vo) || vo < io.lower() - sl || vo > io.upper() + sl)) { ++ibad; note("interval", p); }
                        if (!std::isfinite(vo) || !std::isfinite(ve) || std::fabs(vo) > 1e3f) continue;
                        // nested specialisation leaves the answer unchanged, bit for bit
                        ++ppts;
                        Eigen::Vector4f d0 = eo.deriv(p);
                        if (!outer) {
                            float vp = eo.value(p, *pushed);
                            Eigen::Vector4f dp = eo.deriv(p, *pushed);
                            if (memcmp(&vp, &vo, 4) != 0) { ++pbad; note("push-value", p); }
                            else if (!(dp.array().isNaN().any() || d0.array().isNaN().any()) && (dp - d0).norm() > 1e-5f * (1 + d0.norm())) { ++pbad; note("push-deriv", p); }
                        }
                        {   // a point-specialised tape answers like the base tape at its own point
                            auto vpp = eo.valueAndPush(p);
                            float v1 = vpp.first, v2 = eo.value(p, *vpp.second);
                            if (memcmp(&v1, &vo, 4) != 0 || memcmp(&v2, &vo, 4) != 0) { ++pbad; note("pointpush-value", p); }
                        }
                        // derivative information is compared only where the two trees agree on the VALUE bit for bit: when
                        // they differ (an ill-conditioned constant such as sin(1e13) decides a min / max, or an exact tie
                        // A == z holds on one evaluation path and misses by an ulp on the other) the trees sit in
                        // different regimes and neither gradient is wrong; the value itself is judged by the caller
                        if (memcmp(&vo, &ve, 4) != 0) { ++vskip; continue; }
                        // gradients at unambiguous points
                        Eigen::Vector4f de = ee.deriv(p);
                        eo.set(p, 0); ee.set(p, 0);
                        eo.values(1); ee.values(1);
                        bool ao = eo.getAmbiguous(1)(0), ae = ee.getAmbiguous(1)(0);
                        // the oracle path may report a superset of ambiguities, never miss one that changes the gradient
                        auto fo = eo.features(p); auto fe = ee.features(p);
                        // conditioning of the point: the plain tree's own gradient must not move by a sizeable part
                        // of the tolerance when the point moves by a few ulps, and gradients of 1e4 and more
                        // (cos(exp(..)) of a huge argument) are not compared at all
                        bool pt_stable = de.array().isFinite().all() && de.head<3>().norm() < 1e4f;
                        for (auto& f : fe) if (!(f.norm() < 1e4f)) pt_stable = false;
                        if (pt_stable) {
                            const float gtol0 = 2e-3f * (1 + de.head<3>().norm());
                            for (float sgn : {1.0f, -1.0f}) {
                                Eigen::Vector3f pq = p.array() * (1.0f + sgn * 4e-7f) + sgn * 4e-7f;
                                Eigen::Vector4f dq = ee.deriv(pq);
                                // (at a tie the one-sided gradient may legitimately jump to another feature)
                                bool near_feature = false;
                                for (auto& f : fe) if ((dq.head<3>() - f).norm() <= 0.25f * gtol0) near_feature = true;
                                if (!dq.array().isFinite().all() ||
                                    ((dq.head<3>() - de.head<3>()).norm() > 0.25f * gtol0 && !near_feature)) pt_stable = false;
                            }
                        }
                        // what the oracle tree reports within two ulps of p: an exact tie A == B of the plain tree can miss by an
                        // ulp on the oracle path (another association of the same sum), in which case the oracle tree has its
                        // crease right beside p and reports the other branch there
                        std::list<Eigen::Vector3f> fo_near(fo.begin(), fo.end());
                        bool ao_near = ao;
                        auto probe_ulps = [&]() {
                            static bool done_for_point; done_for_point = false; (void)done_for_point;
                            for (int a = 0; a < 3; ++a) for (int st : {1, 2, -1, -2}) {
                                Eigen::Vector3f pq = p;
                                for (int k2 = 0; k2 < std::abs(st); ++k2) pq(a) = std::nextafterf(pq(a), st > 0 ? INFINITY : -INFINITY);
                                for (auto& f2 : eo.features(pq)) fo_near.push_back(f2);
                                eo.set(pq, 0); eo.values(1);
                                if (eo.getAmbiguous(1)(0)) ao_near = true;
                            }
                            for (int m = 0; m < 8; ++m) {
                                Eigen::Vector3f pq = p;
                                for (int a = 0; a < 3; ++a) pq(a) = std::nextafterf(pq(a), ((m >> a) & 1) ? INFINITY : -INFINITY);
                                for (auto& f2 : eo.features(pq)) fo_near.push_back(f2);
                            }
                            eo.set(p, 0); eo.values(1);
                        };
                        if ((ae && !ao) || fo.size() < fe.size()) {
                            probe_ulps();
                            bool two = false;
                            for (auto& f2 : fo_near) if ((f2 - fo_near.front()).norm() > 1e-3f) two = true;
                            if (two) ao_near = true;
                        }
                        if (!ao && !ae) {
                            if (d0.array().isFinite().all() && de.array().isFinite().all() && d0.head<3>().norm() < 1e3f) {
                                // conditioning: a gradient that moves by a sizeable part of the tolerance when the point
                                // moves by a few ulps (cos(exp(..)) with a huge argument) cannot be compared between two
                                // evaluation orders; such points are not counted
                                const float gtol = 2e-3f * (1 + de.head<3>().norm());
                                if (!pt_stable) continue;
                                ++gpts;
                                if ((d0.head<3>() - de.head<3>()).norm() > gtol) { ++gbad; note("gradient", p); }
                            }
                        } else {
                            if (ae && !ao_near && fe.size() > 1) {
                                // the plain tree has several distinct gradients here; the oracle tree must know
                                bool distinct = false;
                                for (auto& f : fe) if ((f - fe.front()).norm() > 1e-3f) distinct = true;
                                if (distinct) { ++abad; note("ambiguity-missed", p); }
                            }
                        }
                        // feature sets agree (as sets of directions, tolerance)
                        bool finite = true;
                        for (auto& f : fo) if (!f.array().isFinite().all()) finite = false;
                        for (auto& f : fe) if (!f.array().isFinite().all()) finite = false;
                        if (finite && pt_stable && !fo.empty() && !fe.empty()) {
                            ++fpts;
                            auto covered = [](const std::list<Eigen::Vector3f>& A, const std::list<Eigen::Vector3f>& B) {
                                for (auto& x : A) {
                                    bool ok = false;
                                    for (auto& y : B) if ((x - y).norm() <= 2e-3f * (1 + y.norm())) { ok = true; break; }
                                    if (!ok) return false;
                                }
                                return true;
                            };
                            // Both directions are judged against what is REALISABLE: the smooth gradients of
                            // the plain tree at nearby points.  (The plain tree's own feature list may contain
                            // combinations no nearby point realises - a tied min/max whose contributions cancel,
                            // z' + min(z', x' - z') - which the oracle tree is right not to report.)
                            std::list<Eigen::Vector3f> nearby;
                            auto realisable = [&](const Eigen::Vector3f& x) {
                                if (nearby.empty()) {
                                    std::mt19937 r2(99);
                                    std::uniform_real_distribution<float> dd(-1.0f, 1.0f);
                                    for (float eps : {1e-3f, 3e-4f, 1e-4f}) for (int q = 0; q < 80; ++q) {
                                        Eigen::Vector3f pq = p + eps * Eigen::Vector3f(dd(r2), dd(r2), dd(r2));
                                        nearby.push_back(ee.deriv(pq).head<3>());
                                    }
                                }
                                for (auto& y : nearby) if ((x - y).norm() <= 2e-2f * (1 + y.norm())) return true;
                                return false;
                            };
                            auto in_set = [](const Eigen::Vector3f& x, const std::list<Eigen::Vector3f>& B) {
                                for (auto& y : B) if ((x - y).norm() <= 2e-3f * (1 + y.norm())) return true;
                                return false;
                            };
                            bool missing = false;                    // a realisable feature of the plain tree is missing
                            for (auto& x : fe) if (!in_set(x, fo) && !in_set(x, fo_near) && realisable(x)) missing = true;
                            bool mismatch = missing;
                            if (!mismatch) {
                                // the oracle tree reports more: each extra feature must at least be realisable
                                for (auto& x : fo) if (!in_set(x, fe) && !realisable(x)) mismatch = true;
                            }
                            if (mismatch) {
                                if (!fbad) {
                                    std::ostringstream fs;
                                    fs << " oracle_features=";
                                    for (auto& f : fo) fs << "(" << f.x() << "," << f.y() << "," << f.z() << ")";
                                    fs << " plain_features=";
                                    for (auto& f : fe) fs << "(" << f.x() << "," << f.y() << "," << f.z() << ")";
                                    info += fs.str();
                                }
                                ++fbad; if (missing) ++fmiss; note(missing ? "features-missing" : "features-spurious", p);
                            }
                        }
                    }
                    {   // batches: a slot of a batch answers like a single-point query, gradients included, and a second
                        // evaluation of the SAME stored points (no set() in between, as the meshers do with
                        // derivs / getAmbiguous / values) repeats the first
                        const int n = 3 + (b * 5) % 14;
                        std::vector<Eigen::Vector3f, Eigen::aligned_allocator<Eigen::Vector3f>> bp;
                        for (int k2 = 0; k2 < n; ++k2) {
                            Eigen::Vector3f p;
                            for (int a = 0; a < 3; ++a) p(a) = lo(a) + d01(rng) * (hi(a) - lo(a));
                            bp.push_back(p);
                        }
                        for (int k2 = 0; k2 < n; ++k2) eo.set(bp[k2], k2);
                        Eigen::Array<float, 4, Eigen::Dynamic> D1 = eo.derivs(n);
                        Eigen::Array<bool, 1, Eigen::Dynamic> A1 = eo.getAmbiguous(n);
                        Eigen::Array<float, 1, Eigen::Dynamic> V2 = eo.values(n);
                        Eigen::Array<float, 4, Eigen::Dynamic> D2 = eo.derivs(n);
                        std::fesetround(FE_TONEAREST);
                        auto feq = [](float a, float b2) { return (std::isnan(a) && std::isnan(b2)) || memcmp(&a, &b2, 4) == 0 || a == b2; };
                        for (int k2 = 0; k2 < n; ++k2) {
                            ++bpts;
                            float v1 = eo.value(bp[k2]);
                            bool amb1 = eo.getAmbiguous(1)(0);
                            Eigen::Vector4f d1 = eo.deriv(bp[k2]);
                            std::fesetround(FE_TONEAREST);
                            bool ok = feq(V2(k2), v1) && feq(D1(3, k2), v1) && feq(D2(3, k2), v1);
                            for (int a = 0; a < 3 && ok; ++a) ok = feq(D1(a, k2), D2(a, k2));
                            // gradients: only where no min / max tie makes the choice of branch a matter of slot state
                            if (ok && !amb1 && !A1(k2)) for (int a = 0; a < 3 && ok; ++a) ok = feq(D1(a, k2), d1(a));
                            if (ok && amb1 != A1(k2)) ok = false;
                            if (!ok) { ++bbad; note("batch-slot" + std::to_string(k2) + "/" + std::to_string(n), bp[k2]); }
                        }
                    }
                    tape = pushed;
                }
                out("OC pts=" + std::to_string(pts) + " gpts=" + std::to_string(gpts) + " gbad=" + std::to_string(gbad)
                    + " fpts=" + std::to_string(fpts) + " fbad=" + std::to_string(fbad) + " fmiss=" + std::to_string(fmiss) + " ibad=" + std::to_string(ibad)
                    + " ppts=" + std::to_string(ppts) + " pbad=" + std::to_string(pbad) + " abad=" + std::to_string(abad)
                    + " bpts=" + std::to_string(bpts) + " bbad=" + std::to_string(bbad) + " vskip=" + std::to_string(vskip) + info);
            }
            else if (c == "progress") {
                // progress h alg workers minfeat lx ly lz ux uy uz scenario
                Tree tr = H(t[1]);
                BRepSettings st;
                int alg = std::stoi(t[2]);
                st.alg = alg == 0 ? DUAL_CONTOURING : alg == 1 ? ISO_SIMPLEX : HYBRID;
                st.workers = (unsigned)std::stoul(t[3]);
                st.min_feature = of_hex32(t[4]);
                Region<3> rg({of_hex32(t[5]), of_hex32(t[6]), of_hex32(t[7])}, {of_hex32(t[8]), of_hex32(t[9]), of_hex32(t[10])});
                int scenario = t.size() > 11 ? std::stoi(t[11]) : 0;
                int level = rg.withResolution(st.min_feature).level;
                if (scenario == 0) {
                    auto* h = new RecHandler;
                    st.progress_handler = h;
                    auto mesh = Mesh::render(tr, rg, st);
                    bool mono = true, range = true;
                    double prev = -1;
                    for (double v : h->vals) { if (v < prev) mono = false; if (!(v >= 0.0 && v <= 1.0)) range = false; prev = v; }
                    std::ostringstream o;
                    o << "PG level=" << level << " phases=" << h->phases_str() << " cb=" << h->vals.size() << " mono=" << mono
                      << " range=" << range << " first=" << (h->vals.empty() ? -1.0 : h->vals.front()) << " last=" << (h->vals.empty() ? -1.0 : h->vals.back())
                      << " valid_after_finish=" << h->fut_valid() << " tris=" << (mesh ? mesh->branes.size() : 0);
                    out(o.str());
                    // finishing twice (render already finished once; the destructor will finish again)
                    if (!h->fut_valid()) { h->finish(); h->finish(); }
                    delete h;
                    out("PD done");
                } else if (scenario == 1) {           // destroyed before anything started
                    { RecHandler h; }
                    { RecHandler h; h.finish(); h.finish(); }
                    out("PD done");
                } else if (scenario == 2) {           // phases announced, never begun
                    { RecHandler h; h.start({1, 1, 1}); }
                    { RecHandler h; h.start({1, 1, 1}); h.finish(); }
                    out("PD done");
                } else {                              // first phase running, destroyed early
                    { RecHandler h; h.start({1, 2}); h.nextPhase(10); h.tick(3); }
                    { RecHandler h; h.start({1, 2}); h.nextPhase(10); h.tick(10); h.nextPhase(4); h.tick(1); h.finish(); }
                    out("PD done");
                }
            }
            else if (c == "progress_staged") {
                // the stages of Mesh::render one by one, with the shape of the tree in between
                Tree tr = H(t[1]);
                BRepSettings st;
                int alg = std::stoi(t[2]);
                st.alg = alg == 0 ? DUAL_CONTOURING : alg == 1 ? ISO_SIMPLEX : HYBRID;
                st.workers = (unsigned)std::stoul(t[3]);
                st.min_feature = of_hex32(t[4]);
                Region<3> rg({of_hex32(t[5]), of_hex32(t[6]), of_hex32(t[7])}, {of_hex32(t[8]), of_hex32(t[9]), of_hex32(t[10])});
                int level = rg.withResolution(st.min_feature).level;
                std::vector<Evaluator, Eigen::aligned_allocator<Evaluator>> es;
                es.reserve(st.workers);
                const auto topt = tr.optimized();
                for (unsigned i = 0; i < st.workers; ++i) es.emplace_back(Evaluator(topt));
                RecHandler h;
                st.progress_handler = &h;
                h.start({1, 1, 1});
                std::string shape; std::string after_build, after_walk, after_reset;
                size_t tris = 0;
                if (alg == 0) {
                    auto root = DCWorkerPool<3>::build(es.data(), rg, st);
                    after_build = h.phases_str();
                    shape_str<DCTree<3>>(root.get(), shape);
                    auto m = Dual<3>::walk<DCMesher>(root, st);
                    after_walk = h.phases_str(); tris = m->branes.size();
                    root.reset(st);
                } else if (alg == 1) {
                    auto root = SimplexWorkerPool<3>::build(es.data(), rg, st);
                    after_build = h.phases_str();
                    shape_str<SimplexTree<3>>(root.get(), shape);
                    root->assignIndices(st);
                    auto m = Dual<3>::walk_<SimplexMesher>(root, st, [&](PerThreadBRep<3>& brep, int i) { return SimplexMesher(brep, &es[i]); });
                    after_walk = h.phases_str(); tris = m->branes.size();
                    root.reset(st);
                } else {
                    auto root = HybridWorkerPool<3>::build(es.data(), rg, st);
                    after_build = h.phases_str();
                    shape_str<HybridTree<3>>(root.get(), shape);
                    root->assignIndices(st);
                    auto m = Dual<3>::walk_<HybridMesher>(root, st, [&](PerThreadBRep<3>& brep, int i) { return HybridMesher(brep, &es[i]); });
                    after_walk = h.phases_str(); tris = m->branes.size();
                    root.reset(st);
                }
                after_reset = h.phases_str();
                h.finish();
                out("PS level=" + std::to_string(level) + " build=" + after_build + " walk=" + after_walk + " reset=" + after_reset
                    + " tris=" + std::to_string(tris) + " shape=" + shape);
            }
            else if (c == "cancel") {
                // cancel h alg workers minfeat lx ly lz ux uy uz site k   (site = -1: never)
                Tree tr = H(t[1]);
                BRepSettings st;
                int alg = std::stoi(t[2]);
                st.alg = alg == 0 ? DUAL_CONTOURING : alg == 1 ? ISO_SIMPLEX : HYBRID;
                st.workers = (unsigned)std::stoul(t[3]);
                st.min_feature = of_hex32(t[4]);
                Region<3> rg({of_hex32(t[5]), of_hex32(t[6]), of_hex32(t[7])}, {of_hex32(t[8]), of_hex32(t[9]), of_hex32(t[10])});
                g_cancel_site = std::stoi(t[11]); g_cancel_k = std::stol(t[12]);
                g_cancel_linger_ms = t.size() > 13 ? std::stoi(t[13]) : 0;
                for (auto& c2 : g_site_count) c2.store(0);
                g_cancel_fired.store(0);
                g_cancel_settings = &st;
                libfive::verif_sched_point = sched_hook;
                auto t0 = std::chrono::steady_clock::now();
                auto mesh = Mesh::render(tr, rg, st);
                auto ms = std::chrono::duration_cast<std::chrono::milliseconds>(std::chrono::steady_clock::now() - t0).count();
                libfive::verif_sched_point = nullptr;
                std::ostringstream o;
                o << "CN site=" << g_cancel_site << " k=" << g_cancel_k << " fired=" << g_cancel_fired.load()
                  << " result=" << (mesh ? "mesh" : "null");
                if (mesh) o << " tris=" << mesh->branes.size() << " verts=" << mesh->verts.size() << " closed=" << mesh_balanced(*mesh);
                o << " ms=" << ms << " counts=";
                for (int i = 0; i < N_SCHED_SITES; ++i) o << (i ? "," : "") << g_site_count[i].load();
                out(o.str());
            }
            else if (c == "mesh") {
                // mesh h alg workers minfeat lx ly lz ux uy uz maxerr seed
                Tree tr = H(t[1]);
                BRepSettings st;
                int alg = std::stoi(t[2]);
                st.alg = alg == 0 ? DUAL_CONTOURING : alg == 1 ? ISO_SIMPLEX : HYBRID;
                st.workers = (unsigned)std::stoul(t[3]);
                st.min_feature = of_hex32(t[4]);
                Region<3> rg({of_hex32(t[5]), of_hex32(t[6]), of_hex32(t[7])}, {of_hex32(t[8]), of_hex32(t[9]), of_hex32(t[10])});
                st.max_err = of_hex32(t[11]);
                unsigned seed = (unsigned)std::stoul(t[12]);
                int use_vol = t.size() > 13 ? std::stoi(t[13]) : 0;
                Root<VolTree> vol;
                if (use_vol) {
                    // acceleration volume tree, built at a coarser resolution over the same region
                    BRepSettings vs; vs.workers = st.workers;
                    vs.min_feature = st.min_feature * (use_vol == 1 ? 1.0 : use_vol == 2 ? 2.0 : 4.0);
                    vol = VolWorkerPool::build(tr, rg, vs);
                    st.vol = vol.get();
                }
                auto mesh = Mesh::render(tr, rg, st);
                if (!mesh) { out("MA null"); }
                else {
                    Evaluator ev(tr);
                    MeshAudit a = audit_mesh(*mesh, ev, rg, st.min_feature, seed, t.size() > 14 ? std::stoi(t[14]) : 60);
                    std::ostringstream o;
                    o << "MA tris=" << a.tris << " verts=" << a.verts << " degenerate=" << a.degenerate << " bad_index=" << a.bad_index
                      << " unreferenced=" << a.unreferenced << " unbalanced=" << a.unbalanced_edges << " nonmanifold=" << a.nonmanifold_edges
                      << " outside=" << a.outside_region << " maxfield=" << a.max_field / st.min_feature
                      << " wind_pts=" << a.wind_pts << " wind_bad=" << a.wind_bad << " info=" << (a.first_bad.empty() ? "-" : a.first_bad);
                    out(o.str());
                }
            }
            else if (c == "contour") {
                // contour h workers minfeat lx ly ux uy z seed
                Tree tr = H(t[1]);
                BRepSettings st;
                st.workers = (unsigned)std::stoul(t[2]);
                st.min_feature = of_hex32(t[3]);
                float zz = of_hex32(t[8]);
                Region<2> rg({of_hex32(t[4]), of_hex32(t[5])}, {of_hex32(t[6]), of_hex32(t[7])}, Region<2>::Perp(zz));
                unsigned seed = (unsigned)std::stoul(t[9]);
                auto cs = Contours::render(tr, rg, st);
                if (!cs) { out("CA null"); }
                else {
                    Evaluator ev(tr);
                    long open = 0, npts = 0, outside = 0; double maxfield = 0;
                    std::map<std::pair<float, float>, int> ends;
                    for (auto& c2 : cs->contours) {
                        if (c2.size() < 2 || c2.front() != c2.back()) ++open;
                        for (auto& v : c2) {
                            ++npts;
                            if (v.x() < rg.lower.x() - 1e-4 || v.x() > rg.upper.x() + 1e-4 || v.y() < rg.lower.y() - 1e-4 || v.y() > rg.upper.y() + 1e-4) ++outside;
                            maxfield = std::max(maxfield, (double)std::fabs(ev.value({v.x(), v.y(), zz})));
                        }
                    }
                    std::mt19937 rng(seed);
                    std::uniform_real_distribution<double> d01(0.0, 1.0);
                    long wpts = 0, wbad = 0; int sign = 0; std::string info;
                    for (int k = 0; k < 80; ++k) {
                        double px = rg.lower.x() + (rg.upper.x() - rg.lower.x()) * (0.03 + 0.94 * d01(rng));
                        double py = rg.lower.y() + (rg.upper.y() - rg.lower.y()) * (0.03 + 0.94 * d01(rng));
                        float f = ev.value({(float)px, (float)py, zz});
                        if (!(std::fabs(f) > 2.5 * st.min_feature)) continue;
                        double w = 0;
                        for (auto& c2 : cs->contours) for (size_t i = 0; i + 1 < c2.size(); ++i) {
                            double ax = c2[i].x() - px, ay = c2[i].y() - py, bx = c2[i + 1].x() - px, by = c2[i + 1].y() - py;
                            w += std::atan2(ax * by - ay * bx, ax * bx + ay * by);
                        }
                        w /= 2 * M_PI;
                        long wi = std::lround(w);
                        ++wpts;
                        bool bad = std::fabs(w - wi) > 0.2;
                        if (f > 0) { if (wi != 0) bad = true; }
                        // C10_contours_wind_consistently: the solid is on the LEFT of every emitted segment, so filled
                        // regions are wound counter-clockwise (x to the right, y upwards): winding number exactly +1
                        else { if (wi != 1) bad = true; (void)sign; }
                        if (bad) { if (!wbad) { std::ostringstream o; o << "p=(" << px << "," << py << ") f=" << f << " winding=" << w; info = o.str(); } ++wbad; }
                    }
                    std::ostringstream o;
                    o << "CA contours=" << cs->contours.size() << " open=" << open << " pts=" << npts << " outside=" << outside
                      << " maxfield=" << maxfield / st.min_feature << " wind_pts=" << wpts << " wind_bad=" << wbad << " info=" << (info.empty() ? "-" : info);
                    out(o.str());
                }
            }
            else if (c == "collect") {
                // collect nverts (a b)* : Contours::collect on one segment soup; vertex i sits at (i, 0)
                int nv = std::stoi(t[1]);
                std::atomic<uint32_t> counter(1);
                std::vector<PerThreadBRep<2>> breps;
                breps.emplace_back(PerThreadBRep<2>(counter));
                for (int i = 1; i <= nv; ++i) breps[0].pushVertex(Eigen::Vector2f((float)i, 0.0f));
                for (size_t k = 2; k + 1 < t.size(); k += 2)
                    breps[0].branes.push_back({(uint32_t)std::stoul(t[k]), (uint32_t)std::stoul(t[k + 1])});
                Contours cs;
                cs.collect(breps);
                std::string o = "CC";
                for (auto& c2 : cs.contours) { o += " |"; for (auto& v : c2) o += " " + std::to_string((long)std::lround(v.x())); }
                out(o);
            }
            else if (c == "dcgrid") {
                // dcgrid h level lx ly lz ux uy uz workers : dual contouring without merging on a 2^level grid, with the
                // filled lattice points, for the correspondence with Render/DCGrid.v
                Tree tr = H(t[1]);
                int level = std::stoi(t[2]);
                Eigen::Vector3d lo(of_hex32(t[3]), of_hex32(t[4]), of_hex32(t[5])), hi(of_hex32(t[6]), of_hex32(t[7]), of_hex32(t[8]));
                BRepSettings st;
                st.alg = DUAL_CONTOURING; st.workers = (unsigned)std::stoul(t[9]); st.max_err = -1;
                st.min_feature = (hi - lo).minCoeff() / (1 << level) * 1.0001;
                Region<3> rg(lo, hi);
                int got_level = rg.withResolution(st.min_feature).level;
                auto mesh = Mesh::render(tr, rg, st);
                Evaluator ev(tr);
                const int n = 1 << level;
                std::ostringstream o;
                o << "DG level=" << got_level << " tris=" << (mesh ? mesh->branes.size() : 0) << " verts=" << (mesh ? mesh->verts.size() - 1 : 0)
                  << " closed=" << (mesh ? mesh_balanced(*mesh) : 0) << " zero=";
                int zeros = 0; std::string pts;
                for (int i = 0; i <= n; ++i) for (int j = 0; j <= n; ++j) for (int k = 0; k <= n; ++k) {
                    Eigen::Vector3d p(lo.x() + (hi.x() - lo.x()) * i / n, lo.y() + (hi.y() - lo.y()) * j / n, lo.z() + (hi.z() - lo.z()) * k / n);
                    float v = ev.value(p.cast<float>());
                    if (v == 0) ++zeros;
                    if (v < 0) pts += " " + std::to_string(i) + "," + std::to_string(j) + "," + std::to_string(k);
                }
                o << zeros << " filled=" << pts;
                out(o.str());
            }
            else if (c == "sxgrid") {
                // sxgrid h level lx ly lz ux uy uz workers : the simplex mesher without collapsing on a 2^level grid,
                // with the inside flags of every subspace vertex (doubled lattice coordinates), for the
                // correspondence with Render/SimplexGrid.v
                Tree tr = H(t[1]);
                int level = std::stoi(t[2]);
                Eigen::Vector3d lo(of_hex32(t[3]), of_hex32(t[4]), of_hex32(t[5])), hi(of_hex32(t[6]), of_hex32(t[7]), of_hex32(t[8]));
                BRepSettings st;
                st.alg = ISO_SIMPLEX; st.workers = (unsigned)std::stoul(t[9]); st.max_err = -1;
                st.min_feature = (hi - lo).minCoeff() / (1 << level) * 1.0001;
                Region<3> rg(lo, hi);
                const int n = 1 << level;
                std::vector<Evaluator, Eigen::aligned_allocator<Evaluator>> es;
                es.reserve(st.workers);
                const auto topt = tr.optimized();
                for (unsigned i = 0; i < st.workers; ++i) es.emplace_back(Evaluator(topt));
                auto root = SimplexWorkerPool<3>::build(es.data(), rg, st);
                root->assignIndices(st);
                std::set<std::array<int, 3>> inside;
                int uneven = 0;
                const double hcell = (hi.x() - lo.x()) / n;
                std::function<void(const SimplexTree<3>*)> walk = [&](const SimplexTree<3>* c) {
                    if (c->isBranch()) { for (auto& ch : c->children) walk(ch.load()); return; }
                    int i0[3], i1[3];
                    for (int a = 0; a < 3; ++a) {
                        i0[a] = (int)std::lround((c->region.lower(a) - lo(a)) / hcell);
                        i1[a] = (int)std::lround((c->region.upper(a) - lo(a)) / hcell);
                    }
                    if (c->type == Interval::FILLED) {
                        for (int x = 2 * i0[0]; x <= 2 * i1[0]; ++x) for (int y = 2 * i0[1]; y <= 2 * i1[1]; ++y)
                            for (int z = 2 * i0[2]; z <= 2 * i1[2]; ++z) inside.insert({x, y, z});
                    } else if (c->type == Interval::AMBIGUOUS && c->leaf) {
                        if (i1[0] - i0[0] != 1) ++uneven;          // an ambiguous leaf above the finest level
                        for (unsigned sidx = 0; sidx < 27; ++sidx) {
                            auto sub = c->leaf->sub[sidx].load();
                            if (sub && sub->inside) {
                                static const int off[3] = {0, 2, 1};
                                inside.insert({2 * i0[0] + off[sidx % 3], 2 * i0[1] + off[(sidx / 3) % 3], 2 * i0[2] + off[(sidx / 9) % 3]});
                            }
                        }
                    }
                };
                walk(root.get());
                auto mesh = Dual<3>::walk_<SimplexMesher>(root, st,
                        [&](PerThreadBRep<3>& brep, int i) { return SimplexMesher(brep, &es[i]); });
                std::ostringstream o;
                o << "SG n=" << n << " tris=" << (mesh ? mesh->branes.size() : 0) << " closed=" << (mesh ? mesh_closed(*mesh) : 0)
                  << " uneven=" << uneven << " inside=";
                for (auto& p3 : inside) o << " " << p3[0] << "," << p3[1] << "," << p3[2];
                out(o.str());
                root.reset(st);
            }
            else if (c == "quadtree") {
                // quadtree h level lx ly ux uy z max_err : the quadtree the contourer walks (one worker), before
                // (max_err = -1: nothing collapses) and after collapsing at max_err, with the raw directed segments
                // of the dual walk over the collapsed tree -- for Render/QuadTree.v
                Tree tr = H(t[1]);
                int level = std::stoi(t[2]);
                Eigen::Vector2d lo(of_hex32(t[3]), of_hex32(t[4])), hi(of_hex32(t[5]), of_hex32(t[6]));
                float zz = of_hex32(t[7]);
                float max_err = of_hex32(t[8]);
                const Tree topt = tr.optimized();
                std::ostringstream o;
                o << "QT";
                for (int pass = 0; pass < 2; ++pass) {
                    BRepSettings st;
                    st.workers = 1; st.max_err = pass == 0 ? -1.0f : max_err;
                    st.min_feature = (hi - lo).minCoeff() / (1 << level) * 1.0001;
                    Region<2> rg(lo, hi, Region<2>::Perp(zz));
                    std::vector<Evaluator, Eigen::aligned_allocator<Evaluator>> es;
                    es.reserve(1); es.emplace_back(Evaluator(topt));
                    auto xtree = DCWorkerPool<2>::build(es.data(), rg, st);
                    auto raw = Dual<2>::walk<RawContourer>(xtree, st);
                    o << (pass == 0 ? " level=" + std::to_string(xtree.get()->region.level) + " pre=" : " post=");
                    dump_qtree(xtree.get(), o);
                    if (pass == 1) {
                        o << " segs=";
                        for (auto& sg : raw->segs) o << " " << sg.first << ">" << sg.second;
                    }
                }
                out(o.str());
            }
            else if (c == "octree") {
                // octree h level lx ly lz ux uy uz max_err workers : the octree the dual-contouring mesher walks, before
                // (max_err = -1) and after collapsing at max_err, with the triangles of the walk over the collapsed tree
                // (vertex indices as pushed, so that leaf->index names them) -- for Render/OctTree.v
                Tree tr = H(t[1]);
                int level = std::stoi(t[2]);
                Eigen::Vector3d lo(of_hex32(t[3]), of_hex32(t[4]), of_hex32(t[5])), hi(of_hex32(t[6]), of_hex32(t[7]), of_hex32(t[8]));
                float max_err = of_hex32(t[9]);
                unsigned workers = (unsigned)std::stoul(t[10]);
                const Tree topt = tr.optimized();
                std::ostringstream o;
                o << "OT";
                for (int pass = 0; pass < 2; ++pass) {
                    BRepSettings st;
                    st.alg = DUAL_CONTOURING;
                    st.workers = 1; st.max_err = pass == 0 ? -1.0f : max_err;
                    st.min_feature = (hi - lo).minCoeff() / (1 << level) * 1.0001;
                    Region<3> rg(lo, hi);
                    std::vector<Evaluator, Eigen::aligned_allocator<Evaluator>> es;
                    es.reserve(1); es.emplace_back(Evaluator(topt));
                    auto xtree = DCWorkerPool<3>::build(es.data(), rg, st);
                    o << (pass == 0 ? " level=" + std::to_string(xtree.get()->region.level) + " pre=" : " post=");
                    if (pass == 0) { dump_otree(xtree.get(), o); continue; }
                    st.workers = workers;
                    auto mesh = Dual<3>::walk<DCMesher>(xtree, st);
                    dump_otree(xtree.get(), o);
                    o << " tris=";
                    for (auto& b : mesh->branes) o << " " << b(0) << ">" << b(1) << ">" << b(2);
                }
                out(o.str());
            }
            else if (c == "contourgrid") {
                // contourgrid h level lx ly ux uy z workers : the 2D analogue, for Render/DCGrid2.v
                Tree tr = H(t[1]);
                int level = std::stoi(t[2]);
                Eigen::Vector2d lo(of_hex32(t[3]), of_hex32(t[4])), hi(of_hex32(t[5]), of_hex32(t[6]));
                float zz = of_hex32(t[7]);
                BRepSettings st;
                st.workers = (unsigned)std::stoul(t[8]); st.max_err = -1;
                st.min_feature = (hi - lo).minCoeff() / (1 << level) * 1.0001;
                Region<2> rg(lo, hi, Region<2>::Perp(zz));
                int got_level = rg.withResolution(st.min_feature).level;
                auto cs = Contours::render(tr, rg, st);
                Evaluator ev(tr);
                const int n = 1 << level;
                long segs = 0, open = 0;
                if (cs) for (auto& c2 : cs->contours) { segs += (long)c2.size() - 1; if (c2.size() < 2 || c2.front() != c2.back()) ++open; }
                std::ostringstream o;
                o << "CG level=" << got_level << " contours=" << (cs ? cs->contours.size() : 0) << " segs=" << segs << " open=" << open << " zero=";
                int zeros = 0; std::string pts;
                for (int i = 0; i <= n; ++i) for (int j = 0; j <= n; ++j) {
                    Eigen::Vector3f p((float)(lo.x() + (hi.x() - lo.x()) * i / n), (float)(lo.y() + (hi.y() - lo.y()) * j / n), zz);
                    float v = ev.value(p);
                    if (v == 0) ++zeros;
                    if (v < 0) pts += " " + std::to_string(i) + "," + std::to_string(j);
                }
                o << zeros << " filled=" << pts;
                out(o.str());
            }
            else if (c == "ivcheck") {
                // ivcheck h lx ly lz ux uy uz exact(0/1) : C02's statement on one expression and box
                Tree tr = H(t[1]);
                std::map<Tree::Id, float> vars;
                for (size_t k = 0; k < cx.vars.size(); ++k) vars[cx.vars[k].id()] = 0.5f * (k + 1);
                // one shared deck, as in libfive's Evaluator: min/max treat a NaN in their
                // first and second operand differently, so operand order must be the same
                auto deck = std::make_shared<Deck>(tr);
                IntervalEvaluator iv(deck, vars);
                struct ArV : public ArrayEvaluator {
                    ArV(std::shared_ptr<Deck> d, const std::map<Tree::Id, float>& vs)
                        : BaseEvaluator(d, vs), ArrayEvaluator(d, vs) {}
                    bool any_inf() const {
                        for (long k = 0; k < v.rows(); ++k) if (std::isinf(v(k, 0))) return true;
                        return false;
                    }
                } ar(deck, vars);
                Eigen::Vector3f lo(of_hex32(t[2]), of_hex32(t[3]), of_hex32(t[4]));
                Eigen::Vector3f hi(of_hex32(t[5]), of_hex32(t[6]), of_hex32(t[7]));
                bool exact = (t[8] == "1");
                Interval r = iv.eval(lo, hi);
                const char* st = r.state() == Interval::EMPTY ? "E" : r.state() == Interval::FILLED ? "F" : "A";
                out(std::string("IV ") + hex32(r.lower()) + " " + hex32(r.upper()) + " " + (r.isSafe() ? "0" : "1") + " " + st);
                std::fesetround(FE_TONEAREST);
                int pts = 0, bad = 0, illcond = 0; std::string info;
                if (r.isSafe()) {
                    std::mt19937 rng(977);
                    std::uniform_real_distribution<float> d(0.0f, 1.0f);
                    float slack_lo = exact ? 0.0f : 1e-4f * std::max(1.0f, std::fabs(r.lower()));
                    float slack_hi = exact ? 0.0f : 1e-4f * std::max(1.0f, std::fabs(r.upper()));
                    for (int k = 0; k < 48; ++k) {
                        Eigen::Vector3f p;
                        for (int a = 0; a < 3; ++a) {
                            float f;
                            if (k < 8) f = ((k >> a) & 1) ? 1.0f : 0.0f;           // corners
                            else if (k == 8) f = 0.5f;
                            else f = d(rng);
                            p(a) = lo(a) + f * (hi(a) - lo(a));
                            if (k >= 9 && k < 24) {                                  // critical coordinates
                                static const float crit[] = {0.0f, 1.0f, -1.0f, 0.5f, -0.5f};
                                float c = crit[(k + a) % 5];
                                if (c >= lo(a) && c <= hi(a) && ((k >> a) & 1)) p(a) = c;
                            }
                            p(a) = std::min(std::max(p(a), lo(a)), hi(a));
                        }
                        float v = ar.value(p);
                        std::fesetround(FE_TONEAREST);
                        // Eigen's kernels are not IEEE-conformant at +-inf (sqrt(inf) = NaN, ...):
                        // points with an infinite intermediate are outside the explored domain
                        if (ar.any_inf()) continue;
                        ++pts;
                        bool viol = std::isnan(v) || v < r.lower() - slack_lo || v > r.upper() + slack_hi;
                        if (viol && !std::isnan(v) && !exact) {
                            // conditioning: the interval of the DEGENERATE box [p, p] is the tightest enclosure the same
                            // operators give at this point; where it is wide (tan next to its pole turns a one-ulp slack of
                            // the binary32 kernels into 0.1 % of the value) a binary32 point value may miss the box interval
                            // by a few such widths without any operator being unsound
                            Interval rp = iv.eval(p, p);
                            std::fesetround(FE_TONEAREST);
                            float w = rp.upper() - rp.lower();
                            if (rp.isSafe() && std::isfinite(w) && v >= r.lower() - slack_lo - 4 * w && v <= r.upper() + slack_hi + 4 * w) {
                                viol = false; ++illcond;
                            }
                        }
                        if (viol) {
                            if (!bad) info = " p=" + hex32(p.x()) + "," + hex32(p.y()) + "," + hex32(p.z()) + " v=" + hex32(v);
                            ++bad;
                        }
                    }
                }
                // every variable assignment: the combined Evaluator (point + interval halves, as the meshers and the C API
                // use it) is built with OTHER values, evaluates the box, is given the assignment through updateVars and
                // evaluates the box again: on the same deck the result must be the fresh evaluator's; where it is not,
                // it must still enclose the point values the same Evaluator computes
                if (!cx.vars.empty()) {
                    std::map<Tree::Id, float> other;
                    int kk = 0;
                    for (auto& kv : vars) other[kv.first] = kv.second + 2.75f + 1.5f * (kk++);
                    Evaluator E(deck, other);
                    (void)E.eval(lo, hi);
                    E.updateVars(vars);
                    Interval r2 = E.eval(lo, hi);
                    std::fesetround(FE_TONEAREST);
                    float a1 = r.lower(), a2 = r2.lower(), b1 = r.upper(), b2 = r2.upper();
                    bool same = memcmp(&a1, &a2, 4) == 0 && memcmp(&b1, &b2, 4) == 0 && r.isSafe() == r2.isSafe();
                    if (!same && r2.isSafe()) {
                        std::mt19937 rng2(31);
                        std::uniform_real_distribution<float> d2(0.0f, 1.0f);
                        float s_lo = 1e-4f * std::max(1.0f, std::fabs(r2.lower())), s_hi = 1e-4f * std::max(1.0f, std::fabs(r2.upper()));
                        for (int k = 0; k < 24; ++k) {
                            Eigen::Vector3f p;
                            for (int a = 0; a < 3; ++a) {
                                float f = (k < 8) ? (((k >> a) & 1) ? 1.0f : 0.0f) : (k == 8 ? 0.5f : d2(rng2));
                                p(a) = std::min(std::max(lo(a) + f * (hi(a) - lo(a)), lo(a)), hi(a));
                            }
                            float v = E.value(p);
                            std::fesetround(FE_TONEAREST);
                            float vf = ar.value(p);          // a fresh evaluator under the same assignment agrees on the point
                            std::fesetround(FE_TONEAREST);
                            if (ar.any_inf() || memcmp(&v, &vf, 4) != 0) continue;
                            ++pts;
                            Interval rp = iv.eval(p, p);
                            std::fesetround(FE_TONEAREST);
                            float w = rp.isSafe() ? rp.upper() - rp.lower() : 0.0f;
                            if (!std::isfinite(w)) w = 0.0f;
                            if (std::isnan(v) || v < r2.lower() - s_lo - 4 * w || v > r2.upper() + s_hi + 4 * w) {
                                if (!bad) info = " after-updateVars iv=[" + hex32(r2.lower()) + "," + hex32(r2.upper()) + "] p=" + hex32(p.x()) + "," + hex32(p.y()) + "," + hex32(p.z()) + " v=" + hex32(v);
                                ++bad;
                            }
                        }
                    }
                }
                out("IS pts=" + std::to_string(pts) + " bad=" + std::to_string(bad) + " illcond=" + std::to_string(illcond) + info);
            }
            else out("ERR unknown command " + c);
        } catch (std::exception& e) {
            out(std::string("ERR ") + e.what());
        }
    }
    return 0;
}
