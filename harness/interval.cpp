// LIBS: core
// Per-operation interval harness: calls Interval::<op> (public, header-only) on
// operand intervals, prints bounds + flag + state, then samples points of the
// operand intervals through the *array evaluator's own kernels* and checks the
// statement of C02 on them.
#include <cstdio>
#include <cstring>
#include <cmath>
#include <iostream>
#include <sstream>
#include <vector>
#include <string>
#include <random>
#include <cfenv>

#include "libfive/tree/tree.hpp"
#include "libfive/tree/opcode.hpp"
#include "libfive/eval/interval.hpp"
#include "libfive/eval/eval_array.hpp"
#include "libfive/eval/eval_interval.hpp"

using namespace libfive;

static const char* OPNAMES[] = {
#define OPCODE(s, i) #s,
    OPCODES
#undef OPCODE
};
static Opcode::Opcode OPVALS[] = {
#define OPCODE(s, i) Opcode::s,
    OPCODES
#undef OPCODE
};
static Opcode::Opcode op_of_name(const std::string& s) {
    for (unsigned i = 0; i < sizeof(OPVALS) / sizeof(OPVALS[0]); ++i) if (s == OPNAMES[i]) return OPVALS[i];
    return Opcode::INVALID;
}
static std::string hex32(float f) { uint32_t u; memcpy(&u, &f, 4); char b[16]; snprintf(b, sizeof b, "%08x", u); return b; }
static float of_hex32(const std::string& s) { uint32_t u = (uint32_t)strtoul(s.c_str(), nullptr, 16); float f; memcpy(&f, &u, 4); return f; }

static float nextf(float x, int n) {
    for (int i = 0; i < std::abs(n); ++i) x = std::nextafter(x, n > 0 ? INFINITY : -INFINITY);
    return x;
}

// candidate sample points of an interval
static std::vector<float> samples(float lo, float hi, std::mt19937& rng) {
    std::vector<float> s;
    if (std::isnan(lo) || std::isnan(hi)) return s;
    auto add = [&](float v) { if (v >= lo && v <= hi && std::isfinite(v)) s.push_back(v); };
    add(lo); add(hi);
    for (float c : {0.0f, -0.0f, 1.0f, -1.0f, 0.5f, -0.5f, 2.0f, -2.0f, 1.5707964f, -1.5707964f, 3.1415927f, -3.1415927f,
                    1e30f, -1e30f, 1e-30f})   // +-inf are not sampled: see DESIGN.md (C02, infinite stage)
        add(c);
    if (std::isfinite(lo) && std::isfinite(hi)) {
        add(lo + (hi - lo) * 0.5f);
        std::uniform_real_distribution<float> d(0.0f, 1.0f);
        for (int i = 0; i < 6; ++i) add(lo + (hi - lo) * d(rng));
        add(nextf(lo, 1)); add(nextf(hi, -1));
    }
    return s;
}

struct IvEval : public IntervalEvaluator {
    IvEval(const Tree& t) : BaseEvaluator(std::make_shared<Deck>(t), std::map<Tree::Id, float>()),
                            IntervalEvaluator(deck) {}
};

int main() {
    std::ios::sync_with_stdio(false);
    std::string line;
    std::mt19937 rng(12345);
    while (std::getline(std::cin, line)) {
        std::istringstream ls(line);
        std::vector<std::string> t; std::string w;
        while (ls >> w) t.push_back(w);
        if (t.size() < 6) continue;
        std::fesetround(FE_TONEAREST);
        const std::string& id = t[0];
        Opcode::Opcode op = op_of_name(t[2]);
        bool binary = (t[1] == "bin");
        Interval a(of_hex32(t[3]), of_hex32(t[4]), t[5] == "1");
        Interval b(0.0f, 0.0f, false);
        if (binary) b = Interval(of_hex32(t[6]), of_hex32(t[7]), t[8] == "1");
        // Interval result through the evaluator's own dispatch: f(X, Y) on the box a x b
        Tree tr = binary ? Tree::binary(op, Tree::X(), Tree::Y()) : Tree::unary(op, Tree::X());
        bool const_exp = (op == Opcode::OP_POW || op == Opcode::OP_NTH_ROOT);
        if (const_exp) tr = Tree::binary(op, Tree::X(), Tree(b.lower()));
        Interval r(0.0f);
        // direct call of the public Interval functions (what the model mirrors)
        switch (op) {
            case Opcode::OP_ADD: r = a + b; break;
            case Opcode::OP_MUL: r = a * b; break;
            case Opcode::OP_MIN: r = Interval::min(a, b); break;
            case Opcode::OP_MAX: r = Interval::max(a, b); break;
            case Opcode::OP_SUB: r = a - b; break;
            case Opcode::OP_DIV: r = a / b; break;
            case Opcode::OP_ATAN2: r = Interval::atan2(a, b); break;
            case Opcode::OP_POW: r = Interval::pow(a, b); break;
            case Opcode::OP_NTH_ROOT: r = Interval::nth_root(a, b); break;
            case Opcode::OP_MOD: r = Interval::mod(a, b); break;
            case Opcode::OP_NANFILL: r = Interval::nanfill(a, b); break;
            case Opcode::OP_COMPARE: r = Interval::compare(a, b); break;
            case Opcode::OP_SQUARE: r = Interval::square(a); break;
            case Opcode::OP_SQRT: r = Interval::sqrt(a); break;
            case Opcode::OP_NEG: r = -a; break;
            case Opcode::OP_SIN: r = Interval::sin(a); break;
            case Opcode::OP_COS: r = Interval::cos(a); break;
            case Opcode::OP_TAN: r = Interval::tan(a); break;
            case Opcode::OP_ASIN: r = Interval::asin(a); break;
            case Opcode::OP_ACOS: r = Interval::acos(a); break;
            case Opcode::OP_ATAN: r = Interval::atan(a); break;
            case Opcode::OP_EXP: r = Interval::exp(a); break;
            case Opcode::OP_LOG: r = Interval::log(a); break;
            case Opcode::OP_ABS: r = Interval::abs(a); break;
            case Opcode::OP_RECIP: r = Interval::recip(a); break;
            case Opcode::CONST_VAR: r = a; break;
            default: break;
        }
        const char* st = r.state() == Interval::EMPTY ? "E" : r.state() == Interval::FILLED ? "F" : "A";
        std::cout << id << " I " << hex32(r.lower()) << ' ' << hex32(r.upper()) << ' ' << (r.isSafe() ? 0 : 1)
                  << ' ' << st << '\n';
        // the evaluator's dispatch must agree with the direct call (only for safe operands:
        // an evaluator's leaves are never flagged)
        if (a.isSafe() && (!binary || b.isSafe()) && !(const_exp && b.lower() == 1.0f)) {
            IvEval iv(tr);
            Interval e = iv.eval(Eigen::Vector3f(a.lower(), b.lower(), 0), Eigen::Vector3f(a.upper(), b.upper(), 0));
            bool same = (hex32(e.lower()) == hex32(r.lower()) && hex32(e.upper()) == hex32(r.upper())
                         && e.isSafe() == r.isSafe());
            std::cout << id << " D " << (same ? 1 : 0) << ' ' << hex32(e.lower()) << ' ' << hex32(e.upper())
                      << ' ' << (e.isSafe() ? 0 : 1) << '\n';
        }
        // property oracle: sample operand points (operands that are flagged may also be NaN)
        ArrayEvaluator ar(tr);
        auto xs = samples(a.lower(), a.upper(), rng);
        auto ys = binary && !const_exp ? samples(b.lower(), b.upper(), rng) : std::vector<float>{b.lower()};
        if (!a.isSafe()) xs.push_back(NAN);
        if (binary && !const_exp && !b.isSafe()) ys.push_back(NAN);
        int pts = 0, bad = 0; std::string info;
        // slack: 2 ulp for kernels that are not IEEE-exact
        bool exact = (op == Opcode::OP_ADD || op == Opcode::OP_SUB || op == Opcode::OP_MUL || op == Opcode::OP_DIV ||
                      op == Opcode::OP_MIN || op == Opcode::OP_MAX || op == Opcode::OP_NEG || op == Opcode::OP_ABS ||
                      op == Opcode::OP_SQUARE || op == Opcode::OP_RECIP ||   /* sqrt: Eigen's fast-math kernel is not correctly rounded */
                      op == Opcode::OP_COMPARE || op == Opcode::OP_NANFILL || op == Opcode::CONST_VAR);
        float lo = exact ? r.lower() : nextf(r.lower(), -4), hi = exact ? r.upper() : nextf(r.upper(), 4);
        if (op == Opcode::OP_POW || op == Opcode::OP_NTH_ROOT) {
            // powf(a, 1.0f / b) carries the rounding error of the exponent: a few 1e-5 relative
            lo = std::min(lo, r.lower() - 4e-5f * std::fabs(r.lower()));
            hi = std::max(hi, r.upper() + 4e-5f * std::fabs(r.upper()));
        }
        if (r.isSafe()) {
            for (float x : xs) for (float y : ys) {
                float v = ar.value(Eigen::Vector3f(x, y, 0));
                std::fesetround(FE_TONEAREST);
                ++pts;
                if (std::isnan(v) || v < lo || v > hi) {
                    if (!bad) info = " x=" + hex32(x) + " y=" + hex32(y) + " v=" + hex32(v);
                    ++bad;
                }
            }
        }
        std::cout << id << " S pts=" << pts << " bad=" << bad << info << '\n';
    }
    return 0;
}
